#!/bin/bash
# run every check's quick (or given) tier once; print one line per check
cd "$(dirname "$0")/.."
tier=${1:-quick}
for id in C01 C02 C03 C04 C05 C06 C07 C08 C09 C10 C11 C12 C13 C14 C15 C16 C17 C18 C19 C20; do
  out=$(./check $id $tier 2>&1); rc=$?
  echo "$id exit=$rc $(echo "$out" | grep "^\[$id" | cut -c1-160)"
  echo "$out" | grep "VIOLATION\|HARNESS-ERROR" | head -3
done
