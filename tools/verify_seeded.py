#!/usr/bin/env python3
"""Confirm each seeded change myself in a scratch copy (outside /repo and /verif):
patch applies, demo passes on the clean tree and fails with the change, the repository's whole
test suite passes with the change.  Records the outcome in seeded/<id>/meta.json ("confirmed").

usage: tools/verify_seeded.py [name ...]   (default: all without a 'confirmed' record)
"""
import glob, json, os, shutil, subprocess, sys, tempfile, time

HERE = os.path.dirname(os.path.dirname(os.path.abspath(__file__)))
PY = "/venv/bin/python"


def run(cmd, env=None, cwd=None, timeout=1800):
    p = subprocess.run(cmd, capture_output=True, text=True, env=env, cwd=cwd, timeout=timeout)
    return p.returncode, (p.stdout + p.stderr)[-600:]


def verify(d):
    scratch = tempfile.mkdtemp(prefix="seedchk-", dir="/var/tmp")
    try:
        for item in ("src", "tests", "docs", "README.md", "pyproject.toml"):
            src = os.path.join("/repo", item)
            dst = os.path.join(scratch, item)
            (shutil.copytree if os.path.isdir(src) else shutil.copy)(src, dst)
        env = dict(os.environ, PYTHONPATH=os.path.join(scratch, "src"))
        demo = os.path.join(d, "demo.py")
        rc_clean, out_clean = run([PY, demo], env=env)
        rc_apply, out_apply = run(["patch", "-p1", "-s", "-d", scratch, "-i", os.path.join(d, "patch.diff")])
        if rc_apply != 0:
            return {"applies": False, "detail": out_apply}
        rc_demo, out_demo = run([PY, demo], env=env)
        rc_suite, out_suite = run([PY, "-m", "pytest", "-q", "-p", "no:cacheprovider", "-n", "8", "tests"],
                                  env=env, cwd=scratch)
        tail = out_suite.strip().splitlines()[-1] if out_suite.strip() else ""
        return {"applies": True, "demo_on_clean_exit": rc_clean, "demo_with_change_exit": rc_demo,
                "demo_with_change_tail": out_demo[-300:], "suite_exit": rc_suite, "suite_tail": tail,
                "ok": rc_clean == 0 and rc_demo != 0 and rc_suite == 0,
                "base_commit": subprocess.run(["git", "-C", "/repo", "rev-parse", "--short", "HEAD"],
                                              capture_output=True, text=True).stdout.strip(),
                "at": time.strftime("%Y-%m-%dT%H:%M:%SZ", time.gmtime())}
    finally:
        shutil.rmtree(scratch, ignore_errors=True)


def main():
    names = sys.argv[1:]
    dirs = sorted(glob.glob(os.path.join(HERE, "seeded", "C*")))
    for d in dirs:
        name = os.path.basename(d)
        mp = os.path.join(d, "meta.json")
        meta = json.load(open(mp))
        if names and name not in names:
            continue
        if not names and meta.get("confirmed", {}).get("ok"):
            continue
        res = verify(d)
        meta["confirmed"] = res
        json.dump(meta, open(mp, "w"), indent=1)
        print(name, json.dumps({k: v for k, v in res.items() if k != "demo_with_change_tail"}), flush=True)


if __name__ == "__main__":
    main()
