#!/usr/bin/env python3
"""Rewrite non-ASCII characters in /verif python sources as \\uXXXX escapes (they only occur inside string literals)."""
import glob, os, sys
HERE = os.path.dirname(os.path.dirname(os.path.abspath(__file__)))
for p in glob.glob(os.path.join(HERE, "**", "*.py"), recursive=True):
    s = open(p, encoding="utf-8").read()
    if s.isascii():
        continue
    t = "".join(c if ord(c) < 128 else (f"\\u{ord(c):04x}" if ord(c) < 0x10000 else f"\\U{ord(c):08x}") for c in s)
    open(p, "w").write(t)
    print("asciified", p)
