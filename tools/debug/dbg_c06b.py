import json, sys, asyncio, traceback
sys.path.insert(0, '/verif')
from vkit.core import ensure_src
ensure_src()
from checks import c06, c02
import graphql.execution.executor as ex
case = json.load(open(sys.argv[1])); case = case.get("case", case)
orig = c06.run_stop
def patched(env, op_name, variables, oseed, density, plan, schedule, early, stop, mode):
    import checks.c06 as m
    from vkit.harness import sched as S
    OrigSched = S.Sched
    return orig(env, op_name, variables, oseed, density, plan, schedule, early, stop, mode)
# monkeypatch hook to dump tasks
orig_hook_runner = ex.Executor.run_async_work_finished_hook
def dump(tag):
    loop = asyncio.get_event_loop()
    print("=== ", tag)
    for t in asyncio.all_tasks(loop):
        if t.done(): continue
        print(" TASK", repr(t.get_coro())[:100], "cancelling" if t.cancelling() else "")
        st = t.get_stack(limit=6)
        for f in st:
            print("     ", f.f_code.co_filename.split('/')[-1], f.f_lineno, f.f_code.co_name)
def wrapped(self):
    hooks = self.hooks
    if hooks and hooks.async_work_finished and not getattr(hooks.async_work_finished, '_wrapped', False):
        h = hooks.async_work_finished
        def h2(info):
            dump("HOOK FIRES; background=%d" % len(self.background_futures))
            h(info)
        h2._wrapped = True
        self.hooks = type(hooks)(async_work_finished=h2)
        h2._wrapped = True
    print("run_async_work_finished_hook called from:", "".join(traceback.format_stack(limit=12)[:-1])[-2500:])
    return orig_hook_runner(self)
ex.Executor.run_async_work_finished_hook = wrapped
vs = c06.replay(case)
for v in vs:
    print(v.signature, v.detail[:300])
