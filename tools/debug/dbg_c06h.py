import json, sys, asyncio, traceback
sys.path.insert(0, '/verif')
from vkit.core import ensure_src
ensure_src()
from checks import c06
from graphql.execution.incremental import incremental_executor as IE, work_queue as W, stream_item_queue as Q
oh = IE.IncrementalExecutor.handle_stream
def hs(self, index, path, *a):
    r = oh(self, index, path, *a)
    if path.as_list()[:2]==['a6',1]:
        t = asyncio.current_task()
        print("  IN TASK", repr(t.get_coro())[:100], "cancelling", t.cancelling())
        print("".join(traceback.format_stack(limit=14)[:-1]))
    print("HANDLE_STREAM", path.as_list(), "executor", hex(id(self))[-5:], "streams now", [s.path.as_list() for s in self.streams])
    return r
IE.IncrementalExecutor.handle_stream = hs
ob = IE.IncrementalExecutor.build_stream_item_result
def bsir(self, item):
    r = ob(self, item)
    print("ITEM RESULT executor", hex(id(self))[-5:], "work streams", [s.path.as_list() for s in r.work.streams], "errors", len(self.collected_errors.errors))
    return r
IE.IncrementalExecutor.build_stream_item_result = bsir
oa = IE.IncrementalExecutor.abort
def ab(self, reason=None):
    print("EXECUTOR ABORT", hex(id(self))[-5:], [s.path.as_list() for s in self.streams], "from", [f.name for f in traceback.extract_stack(limit=4)[:-1]])
    return oa(self, reason)
IE.IncrementalExecutor.abort = ab
oqa = Q.StreamItemQueue.abort
qnames = {}
oi = IE.ItemStream.__init__
def isinit(self, path, label, queue, ic):
    oi(self, path, label, queue, ic); qnames[id(queue)] = path.as_list()
IE.ItemStream.__init__ = isinit
def qa(self, reason=None):
    print("QUEUE ABORT", qnames.get(id(self)), "entries", self._entries.qsize())
    return oqa(self, reason)
Q.StreamItemQueue.abort = qa
osi = W.WorkQueue._stream_items
def si(self, ev):
    print("INTEGRATE items of", ev.stream.path.as_list(), [[s.path.as_list() for s in (i.work.streams if i.work else [])] for i in ev.items])
    return osi(self, ev)
W.WorkQueue._stream_items = si
case = json.load(open(sys.argv[1])); case = case.get("case", case)
vs = c06.replay(case)
for v in vs: print(v.signature, v.detail[:150])
