import json, sys, asyncio, traceback
sys.path.insert(0, '/verif')
from vkit.core import ensure_src
ensure_src()
from checks import c06
from graphql.execution.incremental import incremental_executor as IE, work_queue as W, stream_item_queue as Q
import graphql.execution.executor as EX
qnames = {}
oi = IE.ItemStream.__init__
def isinit(self, path, label, queue, ic):
    oi(self, path, label, queue, ic); qnames[id(queue)] = (path.as_list(), label)
    print("NEW STREAM", path.as_list(), label, "eager-started", queue._producer_task is not None)
IE.ItemStream.__init__ = isinit
ocs = IE.IncrementalExecutor.complete_stream_item
futs = {}
def csi(self, item_path, *a):
    r = ocs(self, item_path, *a)
    print("COMPLETE ITEM", item_path.as_list(), "awaitable" if asyncio.iscoroutine(r) else "sync")
    if asyncio.iscoroutine(r):
        futs[id(r)] = item_path.as_list()
    return r
IE.IncrementalExecutor.complete_stream_item = csi
oqa = Q.StreamItemQueue.abort
def qa(self, reason=None):
    print("QUEUE ABORT", qnames.get(id(self)), "entries", self._entries.qsize(), "pending", len(self._pending_futures), "producer", self._producer_task and ("done" if self._producer_task.done() else "running"), "aborted", self._aborted, "finished", self._finished)
    return oqa(self, reason)
Q.StreamItemQueue.abort = qa
opush = Q.StreamItemQueue.push
async def push(self, result):
    print("PUSH to", qnames.get(id(self)), "future" if asyncio.isfuture(result) else "value", "aborted", self._aborted)
    return await opush(self, result)
Q.StreamItemQueue.push = push
orig_hook_runner = EX.Executor.run_async_work_finished_hook
def wrapped(self):
    print("RUN HOOK")
    return orig_hook_runner(self)
EX.Executor.run_async_work_finished_hook = wrapped
case = json.load(open(sys.argv[1])); case = case.get("case", case)
vs = c06.replay(case)
for v in vs: print(v.signature, v.detail[:150])
