import json, sys
sys.path.insert(0, '/verif')
from vkit.core import ensure_src
ensure_src()
from checks import c06
case = json.load(open(sys.argv[1]))
case = case.get("case", case)
vs = c06.replay(case)
for v in vs:
    print(v.signature, v.detail[:1500]); print(v.features)
