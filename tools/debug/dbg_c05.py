import json, sys
sys.path.insert(0, '/verif')
from vkit.core import ensure_src
ensure_src()
from checks import c05
case = json.load(open(sys.argv[1])); case = case.get("case", case)
for v in c05.replay(case): print(v.signature, v.detail[:3000]); print(v.features)
