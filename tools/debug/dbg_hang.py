import json, sys, asyncio, traceback
sys.path.insert(0, '/verif')
from vkit.core import ensure_src
ensure_src()
from checks import c06
from vkit.harness import sched as S
orun = S.Sched.run
def run(self, main):
    try:
        return orun(self, main)
    except S.Hang:
        print("=== HANG; tasks:")
        for t in asyncio.all_tasks(self.loop):
            if t.done(): continue
            print(" TASK", repr(t.get_coro())[:110], "cancelling" if t.cancelling() else "")
            for f in t.get_stack(limit=8):
                print("     ", f.f_code.co_filename.split('/')[-1], f.f_lineno, f.f_code.co_name)
        import gc
        from graphql.execution.incremental.work_queue import WorkQueue
        from graphql.execution.incremental.stream_item_queue import StreamItemQueue
        for o in gc.get_objects():
            if isinstance(o, WorkQueue):
                print("WQ root_groups", list(o._root_groups), "root_streams", list(o._root_streams), "stopped", o._stopped, "pump", len(o._pump_tasks), "chan", o._channel.qsize())
                print("  group_nodes", {repr(g): (n.pending, len(n.tasks), [repr(c) for c in n.child_groups]) for g, n in o._group_nodes.items()})
                print("  task_nodes", [(t.path.as_list() if t.path else None, [g.label for g in t.groups], n.value is not None, len(n.child_streams)) for t, n in o._task_nodes.items()])
                for st in o._root_streams:
                    q = st.queue
                    print("  STREAM", st, "aborted", q._aborted, "finished", q._finished, "stopped", q._stopped, "producer", q._producer_task, "entries", q._entries.qsize(), "head", q._head, "pending", len(q._pending_futures))
        raise
S.Sched.run = run
case = json.load(open(sys.argv[1])); case = case.get("case", case)
vs = c06.replay(case)
for v in vs: print(v.signature, v.detail[:150])
