import sys, time, multiprocessing as mp
sys.path.insert(0,'/verif')
def run(sh):
    from vkit.core import ensure_src
    ensure_src()
    from vkit import core
    t0=time.time()
    r = core._worker(("C06","scenarios","thorough",1,sh,16,[],time.time()+10))
    return sh, round(time.time()-t0,1), r.get("generated")
if __name__ == "__main__":
    with mp.get_context("fork").Pool(16) as p:
        for x in p.imap_unordered(run, range(16)): print(x, flush=True)
