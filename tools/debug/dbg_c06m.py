"""Who cancels a task that is still unwinding when async_work_finished fires?  Logs the stack of every
Task.cancel() on an `await_completed` / `complete_async_iterator_value` coroutine and the tasks alive at the hook."""
import json, sys, asyncio, traceback
sys.path.insert(0, '/verif')
from vkit.core import ensure_src
ensure_src()
from checks import c06
import graphql.execution.executor as ex
case = json.load(open(sys.argv[1])); case = case.get("case", case)
cancels = {}
orig_create = asyncio.BaseEventLoop.create_task
class LoggingTask(asyncio.tasks._PyTask):
    def cancel(self, msg=None):
        name = getattr(self.get_coro(), '__qualname__', '')
        cancels.setdefault(id(self), []).append((name, "".join(traceback.format_stack(limit=9)[:-1])))
        return super().cancel(msg)
def factory(loop, coro, **kw):
    return LoggingTask(coro, loop=loop, **kw)
orig_new = asyncio.new_event_loop
def new_loop():
    l = orig_new(); l.set_task_factory(factory); return l
asyncio.new_event_loop = new_loop
orig_hook_runner = ex.Executor.run_async_work_finished_hook
def wrapped(self):
    hooks = self.hooks
    if hooks and hooks.async_work_finished and not getattr(hooks.async_work_finished, '_wrapped', False):
        h = hooks.async_work_finished
        def h2(info):
            loop = asyncio.get_event_loop()
            for t in asyncio.all_tasks(loop):
                if t.done(): continue
                print("ALIVE AT HOOK", repr(t.get_coro())[:90], "cancelling" if t.cancelling() else "")
                for f in t.get_stack(limit=8):
                    print("     ", f.f_code.co_filename.split('/')[-1], f.f_lineno, f.f_code.co_name)
                for name, st in cancels.get(id(t), []):
                    print("   CANCELLED BY:\n" + st[-1800:])
            h(info)
        h2._wrapped = True
        self.hooks = type(hooks)(async_work_finished=h2)
    return orig_hook_runner(self)
ex.Executor.run_async_work_finished_hook = wrapped
for v in c06.replay(case):
    print(v.signature, v.detail[:200])
