import sys, collections, random
sys.path.insert(0,'/verif')
from vkit.core import ensure_src
ensure_src()
from checks import c06
from vkit.gen.choice import Choice
rnd = random.Random(7)
cnt = collections.Counter()
for n in range(3000):
    c = Choice(bytes(rnd.getrandbits(8) for _ in range(256)))
    case = c06.g_backpressure(c)
    cnt["doc%d" % case["doc"]] += 1
    if case["doc"] == 2 and case.get("tail_agen") and not case["early"] and case["stop"].get("after", 0) >= 1:
        cnt["target"] += 1
        if case["fail_at"] is not None and not 0 <= case["fail_at"] < case["n"]: case["fail_at"] = None
        vs, k, nt = c06.eval_backpressure(case)
        cnt["target-viol"] += bool(vs)
        if not vs and cnt["shown"] < 3:
            cnt["shown"] += 1; print({k_: case[k_] for k_ in ("n","initial","source","gated","fail_at","stop","settle_before_stop")})
print(dict(cnt))
