import sys, time, json, random, multiprocessing as mp
sys.path.insert(0,'/verif')
def work(seed):
    from vkit.core import ensure_src
    ensure_src()
    from checks import c06, c04
    from vkit.gen.choice import Choice
    rnd = random.Random(seed)
    t0 = time.time(); n = 0
    while time.time() - t0 < 420:
        c = Choice(bytes(rnd.getrandbits(8) for _ in range(3072)))
        sc = c04.g_scenario(c, 4)
        txt = json.dumps(sc["doc"]["tree"])
        if '"stream"' not in txt or '"defer"' not in txt:
            continue
        long = rnd.choice([101, 103, 130])
        sc["plans"] = [list(p[:5]) + [long] for p in sc["plans"]]
        sc["long"] = long
        sc["stops"] = [[rnd.randrange(2), rnd.randrange(2), {"kind": "abort", "after": rnd.choice([0, 0, 1]), "reason": "exc"}] for _ in range(3)]
        n += 1
        try:
            vs, k, status, nt = c06.eval_scenario(sc)
        except Exception as e:
            continue
        for v in vs:
            if v.signature[1] in ("source-not-closed",):
                return seed, n, {"property": "C06", "signature": list(v.signature), "detail": v.detail[:600], "features": v.features, "case": v.case}
    return seed, n, None
if __name__ == "__main__":
    with mp.get_context("fork").Pool(16) as p:
        for seed, n, found in p.imap_unordered(work, range(100, 116)):
            print(seed, n, bool(found), flush=True)
            if found:
                json.dump(found, open(f"/tmp/f39_found_{seed}.json", "w"), indent=1)
