import json, sys, asyncio, traceback
sys.path.insert(0, '/verif')
from vkit.core import ensure_src
ensure_src()
from checks import c06
from graphql.execution.incremental import stream_item_queue as Q
oc = Q.StreamItemQueue._cleanup
async def cl(self, reason=None, cancel_pending=True):
    print("CLEANUP start", id(self)%1000, "producer", self._producer_task and self._producer_task.done())
    try:
        r = await oc(self, reason, cancel_pending)
        print("CLEANUP done", id(self)%1000)
        return r
    except BaseException as e:
        print("CLEANUP interrupted", id(self)%1000, type(e).__name__)
        raise
Q.StreamItemQueue._cleanup = cl
orun = Q.StreamItemQueue._run
async def run(self):
    try:
        return await orun(self)
    except BaseException as e:
        print("PRODUCER ended", id(self)%1000, type(e).__name__); raise
    finally:
        print("PRODUCER finished", id(self)%1000)
Q.StreamItemQueue._run = run
oa = Q.StreamItemQueue.abort
def ab(self, reason=None):
    r = oa(self, reason)
    print("ABORT", id(self)%1000, "->", type(r).__name__, [f.name for f in traceback.extract_stack(limit=9)[:-1]])
    return r
Q.StreamItemQueue.abort = ab
case = json.load(open(sys.argv[1])); case = case.get("case", case)
vs = c06.replay(case)
for v in vs: print(v.signature, v.detail[:100])
