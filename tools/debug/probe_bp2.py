import sys, collections, random
sys.path.insert(0,'/verif')
from vkit.core import ensure_src
ensure_src()
from checks import c06
from vkit.gen.choice import Choice
rnd = random.Random(7)
cnt = collections.Counter()
for n in range(400):
    c = Choice(bytes(rnd.getrandbits(8) for _ in range(256)))
    case = c06.g_backpressure(c)
    if case["fail_at"] is not None and not 0 <= case["fail_at"] < case["n"]: case["fail_at"] = None
    vs, k, nt = c06.eval_backpressure(case)
    cnt["runs"] += 1
    for v in vs:
        cnt[str(v.signature)] += 1
        if cnt[str(v.signature)] == 1: print(v.signature, v.detail[:300])
print(dict(cnt))
