#!/usr/bin/env python3
"""Regenerate MANIFEST.json from the table below (kept valid at every commit)."""

import json
import os

HERE = os.path.dirname(os.path.dirname(os.path.abspath(__file__)))

# id -> (technique, level text, level note, design ref)
CLAIMED = {
    "C10": (
        "bounded-exhaustive enumeration (all strings <= 5/6 over an 11-symbol alphabet x all offsets) "
        "+ Hypothesis-generated texts/documents against a 15-line reference location function",
        "Every offset of every short string over the dangerous alphabet is compared with an independent "
        "line/column reference (exhaustive), and generated sources with arbitrary names/location offsets, "
        "token positions and syntax/validation/execution errors are checked against the same reference; "
        "str()/formatted of each error must not raise and must excerpt the named line.",
        "Trusts vkit/ref/loc.py as the reading of LineTerminator; offsets inside one CRLF are excluded.",
        "DESIGN.md 3/C10",
    ),
}

CLAIMED["C08"] = (
    "round-trip oracle over grammar-generated documents (Hypothesis byte strings decoded by a grammar-"
    "directed generator, 3 layouts each) + bounded-exhaustive enumeration of short strings in quoted/"
    "block/raw form",
    "parse(text) is compared with the AST built programmatically from the generated tree, then "
    "print->parse must give the same tree and print must be a fixed point; programmatic trees and every "
    "embedded value/type/coordinate go through the same laws; all strings <= 4/5 over a 12-symbol "
    "dangerous alphabet are enumerated as quoted, block and raw block-string text.",
    "Trusts the structural signature (dataclass reflection, loc ignored) and R1's BlockStringValue for "
    "expected block values; documents are parsed with the experimental flags their syntax needs.",
    "DESIGN.md 3/C08",
)
CLAIMED["C09"] = (
    "differential against a reference tokenizer written from the lexical grammar (bounded-exhaustive over "
    "all strings <= 5/6 from a 16-symbol alphabet + Hypothesis token soup) and metamorphic relayout/strip/"
    "token-limit laws on grammar-generated documents",
    "Implementation tokens (kind, span, cooked value, comments included) must equal the reference's on every "
    "enumerated string, accept/reject must agree, spans must be ordered with ignored-only gaps; generated "
    "documents must parse to the same AST under 3 drawn layouts, the minimal layout and "
    "strip_ignored_characters (idempotent), and max_tokens=k must accept iff k >= reference token count.",
    "Trusts vkit/ref/lex.py (regular expressions + the spec's BlockStringValue) as the lexical grammar.",
    "DESIGN.md 3/C09",
)
CLAIMED["C01"] = (
    "generated-input totality check: grammar documents cut at every prefix, point-edited, token soup, "
    "bracket ramps, arbitrary unicode; request templates with known and unknown directives sprinkled over "
    "them, integers beyond the decimal conversion limit among the variables; bounded-exhaustive escape-atom sequences and exception-class x "
    "fault-site product; response-format validator as oracle; thorough tier adds coverage-guided fuzzing "
    "(atheris/libFuzzer, 12 processes, empty and seeded corpora) with the same oracle inside the target",
    "Every parse entry point must return a Node or raise GraphQLSyntaxError on every generated text; "
    "graphql_sync/graphql must return an ExecutionResult whose formatted form passes a response-format "
    "validator written from the specification for generated (schema, source, adversarial variables, "
    "operation name) tuples; every concrete builtin Exception class and custom classes with odd "
    "attributes raised at 9 fault sites (sync/async) must yield exactly one located error at the fault's "
    "response path and null at the nearest nullable ancestor.",
    "Nesting bounded at 100; exceptions with a raising __str__ and non-Exception BaseExceptions are out "
    "of scope; variable maps are JSON-like (string keys).",
    "DESIGN.md 3/C01",
)
CLAIMED["C11"] = (
    "model-based: scripted visitors over grammar-generated ASTs compared call by call with a recursive "
    "reference traversal (dataclass reflection, source order), incl. edit results, identity of untouched "
    "subtrees, immutability of the input and ParallelVisitor members vs their solo runs; the same scripts "
    "wrapped in TypeInfoVisitor over schema-directed documents against a recursive, stack-free reference of "
    "the eleven TypeInfo getters",
    "For generated trees of every node kind and scripts of skip/break/remove/replace decisions on enter or "
    "leave (generic or kind-specific handlers) the implementation's call log (phase, kind, key, path, "
    "parent, ancestors) must equal the reference's, the edited result must equal the reference's result "
    "with untouched subtrees shared by identity, the input must stay unchanged, a no-edit visit must return "
    "the same object, parallel members must see their solo logs, and every decision on the root must return "
    "without raising; a visitor wrapped in TypeInfoVisitor must see the same call log and return the same "
    "tree as bare, every TypeInfo getter must report the reference value of the node's position at each "
    "enter and leave whatever was skipped or removed elsewhere, and be back to its initial value after a "
    "complete traversal.",
    "Child order is derived from source offsets of the parsed tree; results after BREAK or root removal are "
    "not compared.",
    "DESIGN.md 3/C11",
)
CLAIMED["C17"] = (
    "round-trip oracle over type-directed generated schema models (SDL in drawn order and programmatic): "
    "print -> build -> print fixed point, no schema changes either way, independent structural view "
    "equal, texts equal to the generated model",
    "For generated valid schemas (all type kinds, interface hierarchies, recursive/OneOf inputs, custom "
    "directives and scalars, non-default roots, adversarial descriptions/reasons, defaults of every kind) "
    "print_schema output must rebuild without error into a valid schema that prints identically, shows no "
    "find_schema_changes in either direction, has an identical reflection-extracted structural view "
    "(orders included, defaults compared as coerced values) and carries every description and deprecation "
    "reason of the generating model character for character.",
    "Models are valid by construction (checked as a precondition); deprecated directive definitions are "
    "generated in a tenth of the cases and rebuilt with the experimental parser flag their SDL needs.",
    "DESIGN.md 3/C17",
)
CLAIMED["C20"] = (
    "differential against an independent type-system rule checker (R7) over generated schema models and "
    "their single/double mutants from a 35-entry rule-violation catalogue; grammar-random SDL for the "
    "never-raises half",
    "For valid generated models and mutants (SDL with assume_valid_sdl, and programmatic) validate_schema "
    "must return a list without raising, be empty exactly when the reference checker accepts the model, "
    "report every planted rule violation that is still present, repeat identically on a second call, make "
    "a request return data null with exactly those errors without running a resolver, and agree with "
    "assert_valid_schema; grammar-random type-system documents that can be built must validate and serve "
    "a request without raising.",
    "R7 (vkit/ref/schema_rules.py) and R4 are my reading of the specification; schemas whose construction "
    "raises are outside the quantifier and counted.",
    "DESIGN.md 3/C20",
)
CLAIMED["C16"] = (
    "validity-predicate oracle over an adversarial Python value pool (bounded-exhaustive x 5 scalars, "
    "direct and through the executor), Hypothesis integers/floats/text, and generated enum definitions "
    "x probe values; round trip through the same type's input coercion",
    "Every outcome of result coercion must be an Exception (a located field error through execute_sync, "
    "never a crash) or a value of the type's domain: Int an int within 32 bits equal to a numeric input, "
    "Float a finite number equal to a numeric input (no silent precision loss), String/ID str, Boolean "
    "bool, enum a declared name whose internal value equals the input; the value is JSON-representable "
    "and accepted back by the same type's input coercion with the same meaning.",
    "Which strings Int/Float accept is not asserted; first-of-equal-values and name-as-value for enums are "
    "documented behaviour.",
    "DESIGN.md 3/C16",
)
CLAIMED["C15"] = (
    "differential (coercion vs validation, value path vs literal path, rule vs coercion) plus reference "
    "coercion R4 and a conformance predicate, over type-directed generated input types, values (conforming, "
    "near-miss, adversarial Python objects, look-alike containers) and literals (constant and variable-bearing)",
    "For every generated (type, value) and (type, literal): coercion returns Undefined exactly when validation "
    "reports an error, results conform to the type and equal the specification's coercion on JSON-like values "
    "and constant literals, value_to_literal of an accepted value coerces back to the same result, "
    "ValuesOfCorrectTypeRule accepts a constant argument exactly when it coerces, get_argument_values never "
    "reaches the internal fallback, and get_variable_values returns errors or a conforming value for every "
    "provided or defaulted variable.",
    "R4 is my reading of the specification's input coercion; mapping keys are strings; custom scalars are "
    "identity scalars.",
    "DESIGN.md 3/C15",
)
CLAIMED["C18"] = (
    "per generated schema: exhaustive enumeration of all 2^7 introspection option sets against a projection "
    "oracle (R8), shape checker written from the specification, __type lookups for every type name, "
    "includeDeprecated both ways, and the client-schema round trip",
    "For each generated schema and each of the 128 option combinations the introspection query validates, "
    "introspection_from_schema(s, **options) succeeds, the result has the shape the introspection types "
    "prescribe and equals the full-options result minus exactly what the switched-off options omit; single-type "
    "lookups equal the entries of the type list (unknown names give null); includeDeprecated filters agree with "
    "isDeprecated; build_client_schema(full) prints identically, shows no schema changes either way and "
    "introspects to the same result.",
    "The projection R8 and the shape checker are my reading of the option semantics / specification; wrapper "
    "depth <= 4.",
    "DESIGN.md 3/C18",
)
CLAIMED["C19"] = (
    "differential/metamorphic: extend_schema(build(A), B) vs build(A + B) on generated (base, extension) "
    "splits of schema models; sort idempotence/order/no-change laws; change detector soundness on valid "
    "single-edit mutants",
    "For generated splits (extension fields, interface implementations, union members, enum values, optional "
    "input fields, directive definitions, operation types, specifiedBy, applied directives, new types; drawn "
    "definition order) the extended schema and the schema built from both texts are valid, print identically "
    "after sorting, show no schema changes and have equal structural views (coerced defaults included); the "
    "base object is unchanged and a no-op document returns it; sorting is idempotent, ordered, change-free and "
    "structure-preserving; find_schema_changes(s, s) is empty, reported changes imply different printed forms "
    "and detectable edits that change the printed form are reported.",
    "Extension-added input fields are optional; type order is compared after sorting.",
    "DESIGN.md 3/C19",
)
CLAIMED["C02"] = (
    "reference-model oracle: the specification's ExecuteRequest (R5) written over generated document trees, "
    "schema models and a deterministic data oracle shared with harness resolvers; request histories on shared "
    "schema/document objects",
    "For generated (schema, validated document, operation, variables, data oracle with planted faults) the "
    "formatted data equals the reference's including key order at every level, the multiset of error paths is "
    "equal, every resolver received exactly the reference's coerced argument values in the reference's call "
    "order (through out_name too), rejected variables give an errors-only response, and repeating a request "
    "after other requests on the same objects gives the identical response; print_schema never changes.",
    "R5/R4 are my reading of the specification; leaf values are restricted to unambiguous classes; a null "
    "@skip/@include condition and unbound variables inside custom scalar literals are outside the comparison.",
    "DESIGN.md 3/C02",
)
CLAIMED["C13"] = (
    "validity-predicate oracle: documents accepted by validate() (type-directed plus accepted near-valid "
    "mutants of 12 kinds) executed over conforming and faulty oracle data; shape checker and error "
    "attribution against the reference executor's fault positions",
    "With conforming data an accepted document with accepted variables executes without errors (except the "
    "nullable-variable-with-default-into-non-null case the specification defers to run time) and the response "
    "has exactly the prescribed shape for the runtime types present; with arbitrary data every error sits at a "
    "position where the data oracle planted a fault or a null - an error caused by an argument, variable or "
    "field is a violation (this is where a too-permissive validation rule shows).",
    "Only accepted documents are executed; the mutation catalogue decides which validation holes are reachable.",
    "DESIGN.md 3/C13",
)
CLAIMED["C14"] = (
    "differential against a literal, memo-free transcription of FieldsInSetCanMerge/SameResponseShape (R6) "
    "over conflict-seeking generated documents (forced response keys, freely reused fragments, an "
    "exclusive/non-exclusive stratum, argument key permutations, fragment cycles), parsed with and without "
    "locations",
    "The overlapping-fields rule reports at least one conflict exactly when the reference algorithm finds a "
    "non-mergeable pair in some selection set of some operation or fragment definition; on cyclic fragment "
    "graphs the rule must terminate without raising.",
    "R6 is my reading of the specification; documents with unknown fields, @stream or fragment arguments are "
    "not compared.",
    "DESIGN.md 3/C14",
)
CLAIMED["C12"] = (
    "metamorphic/compositional relations over generated documents (valid, near-valid mutants, conflict-"
    "seeking, grammar-random, introspection trees to list depth 5 with fragment cycles) x rule sets (all "
    "specified rules, optionally the two custom rules, every single rule, random subsets in random order) x "
    "error limits, with and without locations",
    "validate() with a rule set reports exactly the multiset union of what each rule reports alone with each "
    "rule's order preserved; the ordered messages are unchanged by reprinting, re-layout and added "
    "descriptions; a second call is identical and neither document nor schema is modified; with max_errors=n "
    "at most n errors plus one abort notice come back, the notice exactly when more errors exist, and they "
    "are the prefix of the unlimited list.",
    "Locations are not compared across layouts; the abort notice is recognised by its text.",
    "DESIGN.md 3/C12",
)
CLAIMED["C03"] = (
    "schedule exploration with a deterministic completion-order scheduler (private asyncio loop, gates "
    "released at quiescence by Hypothesis-drawn schedules) against the reference executor and the "
    "synchronous run; trace invariant for serial mutations",
    "For generated requests with awaitable field results, list items, async iterators, resolve_type / "
    "is_type_of results and every explored completion order: data equals the reference executor's and the "
    "synchronous run's, every error path ends at or below a null, every reference-nulled position is accounted "
    "by an error, no null sits at a non-null position, nothing hangs (exact, clock-free), no exception reaches "
    "the loop's handler, and top-level mutation fields start strictly after the previous one's subtree.",
    "Completion order is controlled at quiescence granularity; callbacks of one loop iteration keep asyncio's "
    "FIFO order; loop._ready is the one private attribute used.",
    "DESIGN.md 3/C03",
)
CLAIMED["C07"] = (
    "model-based: generated subscription documents and source event sequences run under the deterministic "
    "scheduler (emissions, consumer pulls and per-event resolver gates interleaved by drawn schedules) and "
    "compared event by event with the reference executor",
    "The response stream yields exactly one response per delivered source event in source order, each equal "
    "(data, error paths) to the reference executor run with that event as root value, ends exactly when the "
    "source ends, surfaces a mid-stream source exception unchanged after the earlier responses, turns every "
    "kind of source creation failure into one located errors-only response, never hangs, leaves no pending "
    "task and finalises a generator source exactly once.",
    "Events are root-type records or falsy Python values; the consumer pulls sequentially.",
    "DESIGN.md 3/C07",
)
CLAIMED["C04"] = (
    "schedule exploration of generated @defer/@stream requests (deterministic scheduler, async-iterator "
    "sources, consumer pulls, early execution on/off) with a payload assembler; oracle = reference executor on "
    "the directive-free operation: equality, or a refinement relation when errors propagate; plus streamed lists "
    "longer than the stream item queue's capacity read to the end (items = 0..n-1 in order)",
    "Applying the subsequent payloads to the initial payload as the format prescribes yields the reference "
    "response whenever it is error-free or error propagation is disabled (then also the same error paths); "
    "when errors propagate the assembled data refines the non-propagating reference: equal leaves, nulls "
    "accounted by errors, withheld keys and stream tails covered by an id completed with errors; a plain "
    "result equals the reference.",
    "Key order is not compared; the reference executor R5 is my reading of the specification; open known "
    "finding F20 is excluded by predicate; F38 (gap after a cancelled stream item) was repaired.",
    "DESIGN.md 3/C04",
)
CLAIMED["C05"] = (
    "trace-invariant monitor (state machine over the formatted payload sequence) on (a) every explored run of "
    "the incremental request domain under the deterministic scheduler and (b) a bounded enumeration of small work "
    "graphs x completion orders driving the real WorkQueue + IncrementalPublisher directly and (c) a bounded "
    "enumeration of stream specs x completion orders driving the real StreamItemQueue alone",
    "On every payload: ids are announced once before any data and never reused, incremental entries target a "
    "pending id and an existing object or list of the data assembled so far, every announced id is completed "
    "exactly once, a necessarily nested fragment is not announced while its announced enclosing fragment stays "
    "pending, hasNext is true except on the last payload and nothing follows it, and the stream terminates; the "
    "stream item queue delivers its items in list order without gaps or repeats, every result up to the first "
    "item without one, then the normal end or the right failure.",
    "Static nesting is taken from the generated document (every-route enclosure, exact relative key paths); F11 "
    "was repaired, the open known finding F20 is excluded by predicate (target missing, present at the end, an "
    "enclosing fragment was pruned); the direct drive enumerates graphs with <= 2 (3) delivery groups, <= 2 tasks, "
    "<= 1 (2) streams and caps the completion orders per graph (the evidence histogram counts the graphs whose "
    "orders were enumerated completely).",
    "DESIGN.md 3/C05",
)
CLAIMED["C06"] = (
    "fault/stop-point exploration under the deterministic scheduler: generated incremental and plain requests "
    "x stop kind (aclose after k, abort with three reason kinds before/after the initial result, none) x early "
    "execution x schedules, with clock-free history invariants each under its own signature; the same stops on "
    "subscription response streams, on streamed lists longer than the stream item queue's capacity and on the "
    "real StreamItemQueue driven alone (bounded enumeration of stream specs x completion orders); sources whose "
    "finalisation and resolvers whose unwinding are asynchronous (they await a gate)",
    "After the stop the awaiting caller is released at the next quiescence, nothing hangs, and once the consumer "
    "has followed the documented protocol and the harness gates are released no task or harness resolver is left, "
    "every started generator source ran its finally exactly once, async_work_finished fired exactly once and "
    "not before resolvers and sources had settled, and nothing reached the loop's exception handler.",
    "Stop points are chosen by the schedule (aclose right after payload k, abort at a quiescent point); harness "
    "resolvers honour cancellation; source records are read before the private loop is closed, so a source that is "
    "only finalised by loop.shutdown_asyncgens() counts as not closed. No open finding: the defects found "
    "(F10, F12, F13, F21-F24, F26-F37, F39, F42, F46, F47) are repaired in the repository and kept as replays.",
    "DESIGN.md 3/C06",
)
PENDING_REASON = (
    "check under construction in this session (DESIGN.md section 3 has its design); it is not claimed "
    "until it has run quietly on the unchanged tree at several seeds"
)


def main():
    props = [json.loads(l) for l in open(os.path.join(HERE, "properties.jsonl"))]
    checks = []
    na = []
    for p in props:
        pid = p["id"]
        if pid in CLAIMED:
            tech, text, note, ref = CLAIMED[pid]
            checks.append({
                "property_id": pid,
                "quick_cmd": f"./check {pid} quick",
                "thorough_cmd": f"./check {pid} thorough",
                "evidence_file": f"evidence/{pid}.json",
                "replay_cmd_template": f"./check {pid} --replay {{path}}",
                "engine": "vkit",
                "level_claimed": {"category": "exploration", "text": text, "design_ref": ref},
                "level_note": note,
                "technique": tech,
            })
        else:
            na.append({"property_id": pid, "reason": PENDING_REASON})
    manifest = {
        "version": 1,
        "setup_cmd": "(/venv/bin/python -c 'import hypothesis' 2>/dev/null || /venv/bin/pip install "
                     "--no-index --find-links /opt/veriftools/wheels hypothesis); "
                     "(/venv/bin/python -c 'import atheris' 2>/dev/null || /venv/bin/pip install "
                     "--no-index --find-links /opt/veriftools/wheels atheris || true)",
        "hooks": {
            "guard": "GRAPHQL_CORE_VERIF",
            "enable": "no hooks are needed: every observation point is public API or harness-supplied "
                      "resolvers/iterators/visitors; checks import /repo/src directly",
            "baseline_off_cmd": "cd /repo && /venv/bin/python -m pytest -q -p no:cacheprovider "
                                "--timeout=900 tests",
            "source_commits": [],
            "add_only": True,
        },
        "engines": [{
            "name": "vkit",
            "path": "vkit/",
            "serves_properties": sorted(CLAIMED),
            "kind_free_text": "property-based testing: Hypothesis strategies + bounded-exhaustive "
                              "enumeration + deterministic asyncio scheduler, explicit reference-model "
                              "oracles, JSON cases, signature-bucketed failures, replay files",
        }, {
            "name": "atheris-c01",
            "path": "fuzz/",
            "serves_properties": ["C01"],
            "kind_free_text": "coverage-guided fuzzing (atheris / libFuzzer) of the parse entry points and the "
                              "request pipeline with the C01 oracle inside the target; thorough tier only, "
                              "crash artifacts are re-evaluated and reported as ordinary violations",
        }],
        "checks": checks,
        "not_applicable": na,
        "notes": "All checks: ./check <ID> quick|thorough|--replay <file>. known_findings.json lists "
                 "fixed/open findings; replays/<ID>/ is the seconds-long regression tier run first.",
    }
    with open(os.path.join(HERE, "MANIFEST.json"), "w") as f:
        json.dump(manifest, f, indent=1)
    print(f"claimed {len(checks)}, not_applicable {len(na)}")


if __name__ == "__main__":
    main()
