#!/usr/bin/env python3
"""Apply each mutant patch to a scratch copy of /repo/src and expect the check to exit 1.

usage: tools/sensitivity.py [ID ...] [--patch file --id ID] [--tier quick]
Writes evidence/sensitivity.json (informational, not a manifest check).
Scratch copies live under /var/tmp and are removed after each mutant.
"""

import glob
import json
import os
import shutil
import subprocess
import sys
import tempfile
import time

HERE = os.path.dirname(os.path.dirname(os.path.abspath(__file__)))


def run_one(pid, patch, tier="quick"):
    scratch = tempfile.mkdtemp(prefix="vkit-mut-", dir="/var/tmp")
    try:
        shutil.copytree("/repo/src", os.path.join(scratch, "src"))
        p = subprocess.run(["patch", "-p1", "-s", "-d", scratch, "-i", os.path.abspath(patch)],
                           capture_output=True, text=True)
        if p.returncode != 0:
            return {"patch": os.path.relpath(patch, HERE), "property": pid, "status": "patch-failed",
                    "out": (p.stdout + p.stderr)[-300:]}
        env = dict(os.environ, VERIF_SRC=os.path.join(scratch, "src"),
                   VERIF_EVIDENCE_DIR=os.path.join(scratch, "evidence"),
                   VERIF_FOUND_DIR=os.path.join(scratch, "found"))
        t0 = time.time()
        r = subprocess.run([os.path.join(HERE, "check"), pid, tier], capture_output=True,
                           text=True, env=env)
        sigs = [l.strip() for l in r.stdout.splitlines() if l.strip().startswith("signature ")]
        return {"patch": os.path.relpath(patch, HERE), "property": pid, "tier": tier, "exit": r.returncode,
                "caught": r.returncode == 1, "wall_s": round(time.time() - t0, 1),
                "signatures": [s[:200] for s in sigs][:6],
                "stderr_tail": r.stderr[-400:] if r.returncode == 2 else ""}
    finally:
        shutil.rmtree(scratch, ignore_errors=True)


def main():
    args = sys.argv[1:]
    tier = "quick"
    if "--tier" in args:
        i = args.index("--tier")
        tier = args[i + 1]
        del args[i:i + 2]
    jobs = []
    if "--patch" in args:
        i = args.index("--patch")
        patch = args[i + 1]
        pid = args[args.index("--id") + 1]
        jobs.append((pid, patch))
    else:
        ids = [a.upper() for a in args] or sorted(
            os.path.basename(d) for d in glob.glob(os.path.join(HERE, "mutants", "C*")))
        for pid in ids:
            for patch in sorted(glob.glob(os.path.join(HERE, "mutants", pid, "*.patch"))):
                jobs.append((pid, patch))
            for patch in sorted(glob.glob(os.path.join(HERE, "seeded", pid + "*", "patch.diff"))):
                jobs.append((pid, patch))
    results = []
    for pid, patch in jobs:
        r = run_one(pid, patch, tier)
        results.append(r)
        print(json.dumps(r))
    out = os.path.join(HERE, "evidence", "sensitivity.json")
    old = {}
    if os.path.exists(out):
        try:
            old = {r["patch"] + "@" + r.get("property", "") + "@" + r.get("tier", "quick"): r
                   for r in json.load(open(out))["results"]}
        except Exception:  # noqa: BLE001
            old = {}
    for r in results:
        old[r["patch"] + "@" + r.get("property", "") + "@" + r.get("tier", tier)] = r
    with open(out, "w") as f:
        json.dump({"results": sorted(old.values(), key=lambda r: (r["patch"], r.get("tier", "quick")))}, f, indent=1)
    missed = [r for r in results if not r.get("caught")]
    print(f"{len(results) - len(missed)}/{len(results)} caught")
    return 0


if __name__ == "__main__":
    sys.exit(main())
