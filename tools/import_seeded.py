#!/usr/bin/env python3
"""Copy the output of a seeding sub-agent (dir with <ID>-<k>/{patch.diff,demo.py,meta.json}) into
seeded/ under the next free numbers.  usage: tools/import_seeded.py <out-dir>"""
import glob, json, os, re, shutil, sys

HERE = os.path.dirname(os.path.dirname(os.path.abspath(__file__)))
src = sys.argv[1]
for d in sorted(glob.glob(os.path.join(src, "C[0-9][0-9]-*"))):
    if not all(os.path.exists(os.path.join(d, f)) for f in ("patch.diff", "demo.py", "meta.json")):
        print("incomplete", d)
        continue
    pid = os.path.basename(d).split("-")[0]
    used = [int(re.sub(r".*-", "", x)) for x in glob.glob(os.path.join(HERE, "seeded", pid + "-*"))]
    k = max(used + [0]) + 1
    dst = os.path.join(HERE, "seeded", f"{pid}-{k}")
    os.makedirs(dst)
    for f in ("patch.diff", "demo.py", "meta.json"):
        shutil.copy(os.path.join(d, f), os.path.join(dst, f))
    meta = json.load(open(os.path.join(dst, "meta.json")))
    meta["round"] = 4
    json.dump(meta, open(os.path.join(dst, "meta.json"), "w"), indent=1)
    print(os.path.basename(d), "->", os.path.basename(dst))
