"""evidence/<ID>.json writer with a hand-rolled check of the schema's required keys."""

from __future__ import annotations

import json
import os

from .core import HERE


def _jsonable(x):
    try:
        json.dumps(x)
        return x
    except (TypeError, ValueError):
        return json.loads(json.dumps(x, default=repr))


def write(prop, tier, seed, mod, *, evaluations, generated, distinct_nontrivial, samples,
          classes, per_sub, excluded_known, violations, wall_s, budget_hit, notes, replays,
          violation_signatures):
    sample_list = [{"stratum": k, "case": _jsonable(v)} for k, v in sorted(samples.items())][:24]
    cov = {
        "evaluations": int(evaluations),
        "distinct_nontrivial": int(distinct_nontrivial),
        "rule": mod.RULE,
        "samples": sample_list,
        "generated_scenarios": int(generated),
        "replay_cases": int(replays),
        "per_subcheck": per_sub,
        "class_histogram": dict(sorted(classes.items())),
        "excluded_known": excluded_known,
        "budget_hit": bool(budget_hit),
        "exhaustive": bool(per_sub) and all(p.get("exhaustive") for p in per_sub.values()),
        "exhaustive_subchecks": sorted(k for k, p in per_sub.items() if p.get("exhaustive")),
        "violation_signatures": violation_signatures,
        "notes": _jsonable(notes),
    }
    doc = {
        "property_id": prop,
        "tier": tier,
        "seed": int(seed),
        "level": "exploration",
        "coverage": cov,
        "assumptions": list(mod.ASSUMPTIONS),
        "wall_s": round(float(wall_s), 2),
        "violations": int(violations),
    }
    validate(doc)
    # runs against a patched scratch copy of the sources (tools/sensitivity.py) must not overwrite the
    # evidence of /repo itself
    d = os.environ.get("VERIF_EVIDENCE_DIR") or os.path.join(HERE, "evidence")
    os.makedirs(d, exist_ok=True)
    os.makedirs(d, exist_ok=True)
    tmp = os.path.join(d, f".{prop}.json.tmp")
    with open(tmp, "w") as f:
        json.dump(doc, f, indent=1, ensure_ascii=True)
    os.replace(tmp, os.path.join(d, f"{prop}.json"))


def validate(doc) -> None:
    for k in ("property_id", "tier", "seed", "level", "coverage", "wall_s"):
        if k not in doc:
            raise ValueError(f"evidence lacks {k}")
    cov = doc["coverage"]
    if not (isinstance(cov["evaluations"], int) and cov["evaluations"] >= 1):
        raise ValueError("evaluations must be >= 1")
    if not (isinstance(cov["distinct_nontrivial"], int) and cov["distinct_nontrivial"] >= 2):
        raise ValueError(f"distinct_nontrivial must be >= 2, got {cov['distinct_nontrivial']}")
    if not isinstance(cov["rule"], str) or not cov["rule"]:
        raise ValueError("rule missing")
    if not (isinstance(cov["samples"], list) and len(cov["samples"]) >= 1):
        raise ValueError("samples must be a non-empty list")
