"""Work around CPython 3.11/3.12 data-stack chunk thrashing.

The interpreter keeps Python frames on a per-thread "data stack" made of 16 KiB chunks and frees a
chunk as soon as the frame at its start is popped.  A hot loop whose calls straddle a chunk boundary
then pays one mmap + munmap (and the page faults that follow) per call; in the pool workers this cost
several checks 50 % of their CPU time as system time.  ``padded(fn, *args)`` calls ``fn`` from a frame
that is slightly larger than 64 KiB, which makes the interpreter allocate a 128 KiB chunk whose
remaining ~64 KiB hold all frames below, so no boundary is crossed in the hot region.
"""

from __future__ import annotations

_N = 8300  # locals -> frame just above 64 KiB


def _make():
    names = [f"v{i}" for i in range(_N)]
    src = "def _pad(fn, args):\n    " + " = ".join(names) + " = None\n    return fn(*args)\n"
    ns: dict = {}
    exec(src, ns)  # noqa: S102
    return ns["_pad"]


_pad = None


def padded(fn, *args):
    global _pad
    if _pad is None:
        _pad = _make()
    return _pad(fn, args)
