"""CLI:  check <ID> quick|thorough   |   check <ID> --replay <file>

exit 0  property held on everything explored (KNOWN-FINDING lines possible)
exit 1  VIOLATION property=<id> replay=<path>   (one line per root-cause signature)
exit 2  harness error (never reported as a violation)
"""

from __future__ import annotations

import glob
import importlib
import json
import multiprocessing as mp
import os
import sys
import time
import traceback
from collections import Counter

from . import core, evidence, findings
from .core import HERE, Violation

QUICK_BUDGET = float(os.environ.get("VERIF_QUICK_BUDGET", "100"))
THOROUGH_BUDGET = float(os.environ.get("VERIF_THOROUGH_BUDGET", "1500"))
NPROC = int(os.environ.get("VERIF_NPROC", "16"))


def _print_known(prop: str, excluded: Counter) -> None:
    for e in findings.open_entries(prop):
        n = excluded.get(e["id"], 0)
        print(f"KNOWN-FINDING: property={prop} {e['id']}: {e['description']} "
              f"(cases excluded this run: {n})", flush=True)


def _write_found(prop: str, v: dict) -> str:
    d = os.path.join(os.environ.get("VERIF_FOUND_DIR") or os.path.join(HERE, "found"), prop)
    os.makedirs(d, exist_ok=True)
    sig = "-".join(str(s) for s in v["signature"])[:80].replace("/", "_").replace(" ", "_")
    name = f"found-{sig}-{core.chash(v['case']):016x}.json"
    path = os.path.join(d, name)
    with open(path, "w") as f:
        json.dump({"property": prop, "signature": v["signature"], "detail": v["detail"],
                   "features": v.get("features", {}), "case": v["case"]}, f, indent=1,
                  default=repr)
    return path


def run_replays(mod, prop: str, known) -> tuple[int, list[tuple[str, Violation]]]:
    n = 0
    bad: list[tuple[str, Violation]] = []
    ctx = core.Ctx(prop, "replay", "quick", 0, 0, 1, known, None)
    for path in sorted(glob.glob(os.path.join(HERE, "replays", prop, "*.json"))):
        with open(path) as f:
            rec = json.load(f)
        n += 1
        vs = ctx.filter_known(mod.replay(rec["case"]))
        for v in vs:
            bad.append((path, v))
    return n, bad, ctx.excluded_known


def main(argv=None) -> int:
    argv = list(sys.argv[1:] if argv is None else argv)
    if len(argv) < 2:
        print(__doc__)
        return 2
    prop = argv[0].upper()
    t0 = time.time()
    try:
        core.ensure_src()
        mod = importlib.import_module(f"checks.{prop.lower()}")
    except Exception:  # noqa: BLE001
        traceback.print_exc()
        return 2
    known = findings.open_entries(prop)

    if argv[1] == "--replay":
        path = argv[2]
        with open(path) as f:
            rec = json.load(f)
        ctx = core.Ctx(prop, "replay", "quick", 0, 0, 1, known, None)
        try:
            vs = ctx.filter_known(mod.replay(rec["case"]))
        except Exception:  # noqa: BLE001
            traceback.print_exc()
            return 2
        _print_known(prop, ctx.excluded_known)
        if vs:
            for v in vs:
                print(f"  {v.sig()}: {v.detail[:500]}")
            print(f"VIOLATION property={prop} replay={path}")
            return 1
        print(f"OK property={prop} replay={path} holds")
        return 0

    tier = argv[1]
    if tier not in ("quick", "thorough"):
        print(__doc__)
        return 2
    seed = int(os.environ.get("VERIF_SEED", "1"))
    budget = QUICK_BUDGET if tier == "quick" else THOROUGH_BUDGET
    deadline = t0 + budget
    # found/<ID>/ holds the shrunk cases of *this* run only (it is git-ignored scratch output)
    found_dir = os.path.join(os.environ.get("VERIF_FOUND_DIR") or os.path.join(HERE, "found"), prop)
    for old_file in glob.glob(os.path.join(found_dir, "found-*.json")):
        try:
            os.remove(old_file)
        except OSError:
            pass

    # ---- replay tier ---------------------------------------------------------------
    try:
        n_replays, bad, excl0 = run_replays(mod, prop, known)
    except Exception:  # noqa: BLE001
        traceback.print_exc()
        return 2

    # ---- generated tiers -------------------------------------------------------------
    subs = mod.subchecks(tier)
    jobs = []
    for s in sorted(subs, key=lambda s: -s.weight):
        for sh in range(s.shards):
            jobs.append((prop, s.name, tier, seed, sh, s.shards, known, deadline))
    results = []
    if jobs:
        mpctx = mp.get_context("fork")
        with mpctx.Pool(min(NPROC, len(jobs)), maxtasksperchild=1) as pool:
            for r in pool.imap_unordered(core._worker, jobs, chunksize=1):
                results.append(r)
    errors = [r for r in results if "error" in r]
    if errors:
        for r in errors[:3]:
            print(f"HARNESS-ERROR sub={r['sub']} shard={r['shard']}\n{r['error']}", file=sys.stderr)
        return 2

    # ---- merge ------------------------------------------------------------------------
    evaluations = n_replays
    generated = 0
    nontriv: set[int] = set()
    classes: Counter = Counter()
    samples: dict = {}
    excluded: Counter = Counter(excl0)
    per_sub: dict = {}
    viols: dict[str, dict] = {}
    budget_hit = False
    notes: dict = {}
    for r in results:
        evaluations += r["evaluations"]
        generated += r["generated"]
        nontriv.update(r["nontrivial"])
        classes.update(r["classes"])
        excluded.update(r["excluded_known"])
        budget_hit = budget_hit or r["budget_hit"]
        for k, v in r["samples"].items():
            samples.setdefault(f"{r['sub']}:{k}", v)
        ps = per_sub.setdefault(r["sub"], {"evaluations": 0, "generated": 0, "shards": 0,
                                           "wall_s_max": 0.0, "nontrivial": 0})
        ps["evaluations"] += r["evaluations"]
        ps["generated"] += r["generated"]
        ps["shards"] += 1
        ps["nontrivial"] += len(r["nontrivial"])
        ps["wall_s_max"] = round(max(ps["wall_s_max"], r["wall_s"]), 2)
        for k, v in r.get("notes", {}).items():
            notes.setdefault(r["sub"], {})[k] = v
        for sig, v in r["violations"].items():
            old = viols.get(sig)
            if old is None or len(core.canon(v["case"])) < len(core.canon(old["case"])):
                viols[sig] = v
    for s in subs:
        if s.name in per_sub:
            per_sub[s.name]["exhaustive"] = s.exhaustive

    lines = []
    for path, v in bad:
        lines.append((v.sig(), path, v.detail))
    for sig, v in sorted(viols.items()):
        lines.append((sig, _write_found(prop, v), v["detail"]))

    wall = time.time() - t0
    try:
        evidence.write(
            prop, tier, seed, mod,
            evaluations=evaluations, generated=generated, distinct_nontrivial=len(nontriv),
            samples=samples, classes=dict(classes), per_sub=per_sub,
            excluded_known=dict(excluded), violations=len(lines), wall_s=wall,
            budget_hit=budget_hit, notes=notes, replays=n_replays,
            violation_signatures=[l[0] for l in lines],
        )
    except Exception:  # noqa: BLE001
        traceback.print_exc()
        if not lines:
            return 2  # an invalid evidence file on a quiet run is a harness error

    _print_known(prop, excluded)
    print(f"[{prop} {tier} seed={seed}] evaluations={evaluations} generated={generated} "
          f"distinct_nontrivial={len(nontriv)} replays={n_replays} wall={wall:.1f}s "
          f"budget_hit={budget_hit}")
    for name, ps in per_sub.items():
        print(f"  sub {name}: {ps}")
    if lines:
        for sig, path, detail in lines:
            print(f"  signature {sig}: {detail[:600]}")
            print(f"VIOLATION property={prop} replay={path}")
        return 1
    return 0


if __name__ == "__main__":
    sys.exit(main())
