"""Core of the verification kit: verdicts, per-shard context, shard driver.

A check module (checks/cNN.py) exposes

    ID          property id ("C10")
    RULE        text: how cases are generated and what counts as non-trivial
    ASSUMPTIONS list[str]
    def subchecks(tier) -> list[Sub]
    def replay(case) -> list[Violation]      # library-free regression path

A ``Sub`` names a function ``fn(ctx, shard, nshards)`` executed in a fresh
worker process per shard.  The function reports through ``ctx`` only.
"""

from __future__ import annotations

import hashlib
import json
import os
import sys
import time
import traceback
from collections import Counter
from dataclasses import dataclass, field
from typing import Any, Callable

HERE = os.path.dirname(os.path.dirname(os.path.abspath(__file__)))
SRC = os.environ.get("VERIF_SRC", "/repo/src")


def ensure_src() -> None:
    """Import graphql from the tree under test, never from a stale copy."""
    if SRC not in sys.path:
        sys.path.insert(0, SRC)
    import graphql  # noqa: PLC0415

    real = os.path.realpath(graphql.__file__)
    if not real.startswith(os.path.realpath(SRC)):
        raise RuntimeError(f"graphql imported from {real}, expected under {SRC}")


def canon(case: Any) -> str:
    return json.dumps(case, sort_keys=True, ensure_ascii=True, default=repr)


def chash(case: Any) -> int:
    """64-bit hash of the canonical JSON of a case (distinctness measure)."""
    return int.from_bytes(
        hashlib.blake2b(canon(case).encode(), digest_size=8).digest(), "big"
    )


def derive_seed(*parts: Any) -> int:
    h = hashlib.blake2b("/".join(map(str, parts)).encode(), digest_size=8).digest()
    return int.from_bytes(h, "big") >> 1


@dataclass
class Violation:
    """One oracle verdict that a relation of the property broke."""

    signature: tuple  # small stable tuple naming relation + input class
    detail: str
    case: Any = None
    features: dict = field(default_factory=dict)  # for known-finding predicates

    def sig(self) -> str:
        return "/".join(str(s) for s in self.signature)

    def to_json(self) -> dict:
        return {
            "signature": list(self.signature),
            "detail": self.detail[:2000],
            "features": self.features,
            "case": self.case,
        }


class Found(Exception):
    """Raised inside a Hypothesis test to make it shrink a violating case."""

    def __init__(self, violation: Violation):
        super().__init__(violation.sig() + ": " + violation.detail[:300])
        self.violation = violation


class BudgetExceeded(Exception):
    pass


# wall-clock cap on shrinking one failure (Hypothesis' own cap is 5 minutes); after it the test body
# returns at once, the shrinker settles on the smallest failing case seen so far
SHRINK_BUDGET_QUICK = float(os.environ.get("VERIF_SHRINK_QUICK", "25"))
SHRINK_BUDGET_THOROUGH = float(os.environ.get("VERIF_SHRINK_THOROUGH", "180"))


@dataclass
class Sub:
    name: str
    fn: Callable  # fn(ctx, shard, nshards)
    shards: int = 1
    weight: float = 1.0  # relative cost hint (longest first)
    exhaustive: bool = False


class Ctx:
    """Per-shard collector.  Everything here is JSON-able on ``result()``."""

    MAX_HASHES = 400_000

    def __init__(self, check_id, sub, tier, seed, shard, nshards, known, deadline):
        self.check_id = check_id
        self.sub = sub
        self.tier = tier
        self.seed = seed
        self.shard = shard
        self.nshards = nshards
        self.known = known  # list of open known-finding entries for this property
        self.deadline = deadline  # absolute time.time() or None
        self.evaluations = 0
        self.generated = 0
        self.nontrivial: set[int] = set()
        self.nontrivial_overflow = 0
        self.classes: Counter = Counter()
        self.samples: dict[str, Any] = {}
        self.violations: dict[str, Violation] = {}
        self.excluded_known: Counter = Counter()
        self.notes: dict[str, Any] = {}
        self.budget_hit = False
        self._target_sig: str | None = None
        self._last: Violation | None = None
        self._shrink_until: float | None = None

    # ---- accounting -----------------------------------------------------------------
    def count(self, n: int = 1) -> None:
        self.evaluations += n

    def gen(self, n: int = 1) -> None:
        self.generated += n

    def cls(self, label: str, n: int = 1) -> None:
        self.classes[label] += n

    def nontriv(self, case_or_hash: Any, stratum: str | None = None) -> None:
        h = case_or_hash if isinstance(case_or_hash, int) else chash(case_or_hash)
        if len(self.nontrivial) < self.MAX_HASHES:
            self.nontrivial.add(h)
        elif h not in self.nontrivial:
            self.nontrivial_overflow += 1  # conservative: not counted as distinct
        if stratum is not None and not isinstance(case_or_hash, int):
            self.sample(stratum, case_or_hash)

    def sample(self, stratum: str, case: Any, keep: int = 1) -> None:
        key = stratum
        if key not in self.samples and len(self.samples) < 40:
            self.samples[key] = case

    def out_of_time(self) -> bool:
        if self.deadline is not None and time.time() > self.deadline:
            self.budget_hit = True
            return True
        return False

    # ---- verdicts ---------------------------------------------------------------------
    def filter_known(self, violations: list[Violation]) -> list[Violation]:
        from .findings import matches  # noqa: PLC0415

        rest = []
        for v in violations:
            hit = None
            for entry in self.known:
                if matches(entry, v):
                    hit = entry
                    break
            if hit is not None:
                self.excluded_known[hit["id"]] += 1
            else:
                rest.append(v)
        return rest

    def report(self, violations: list[Violation], case: Any = None) -> None:
        """Non-Hypothesis path (enumerations): bucket by signature, keep smallest."""
        for v in self.filter_known(violations):
            if v.case is None:
                v.case = case
            s = v.sig()
            old = self.violations.get(s)
            if old is None or len(canon(v.case)) < len(canon(old.case)):
                self.violations[s] = v

    def check(self, violations: list[Violation], case: Any = None) -> None:
        """Hypothesis path: raise Found for the target signature so that it shrinks."""
        rest = self.filter_known(violations)
        if not rest:
            return
        for v in rest:
            if v.case is None:
                v.case = case
        if self._target_sig is None:
            self._target_sig = rest[0].sig()
            self._shrink_until = time.time() + (SHRINK_BUDGET_QUICK if self.tier == "quick"
                                                else SHRINK_BUDGET_THOROUGH)
        for v in rest:
            if v.sig() == self._target_sig:
                if self._last is None or len(canon(v.case)) <= len(canon(self._last.case)):
                    self._last = v
                raise Found(v)
        # a different root cause showed up while shrinking: record, do not steer
        for v in rest:
            self.violations.setdefault(v.sig(), v)

    def run_hypothesis(self, test: Callable, *, label: str = "") -> None:
        """Run a @given test; on failure store the (shrunk) violation."""
        self._target_sig = None
        self._last = None
        self._shrink_until = None
        try:
            test()
        except Found as f:
            v = self._last or f.violation
            self.violations[v.sig()] = v
        except BudgetExceeded:
            self.budget_hit = True
        except BaseException as e:  # noqa: BLE001
            # Hypothesis wraps some failures (Flaky, health checks): harness trouble.
            if self._last is not None:
                v = self._last
                v.features = dict(v.features, flaky=type(e).__name__)
                self.violations[v.sig()] = v
            else:
                raise

    def result(self) -> dict:
        return {
            "sub": self.sub,
            "shard": self.shard,
            "evaluations": self.evaluations,
            "generated": self.generated,
            "nontrivial": list(self.nontrivial),
            "nontrivial_overflow": self.nontrivial_overflow,
            "classes": dict(self.classes),
            "samples": self.samples,
            "violations": {k: v.to_json() for k, v in self.violations.items()},
            "excluded_known": dict(self.excluded_known),
            "notes": self.notes,
            "budget_hit": self.budget_hit,
        }


def hyp_settings(max_examples: int, *, shrink: bool = True, stateful_steps: int | None = None):
    from hypothesis import HealthCheck, Phase, settings  # noqa: PLC0415

    phases = [Phase.generate] + ([Phase.shrink] if shrink else [])
    kw = dict(
        max_examples=max_examples,
        database=None,
        deadline=None,
        derandomize=False,
        report_multiple_bugs=False,
        print_blob=False,
        phases=phases,
        suppress_health_check=[HealthCheck.too_slow, HealthCheck.data_too_large,
                               HealthCheck.large_base_example],
    )
    if stateful_steps is not None:
        kw["stateful_step_count"] = stateful_steps
    return settings(**kw)


def given_run(ctx: Ctx, strategy, body: Callable, *, max_examples: int, tag: str = "",
              shrink: bool = True) -> None:
    """Run ``body(case)`` over ``strategy`` with the derived seed for this shard."""
    import hypothesis  # noqa: PLC0415
    from hypothesis import given  # noqa: PLC0415

    s = derive_seed(ctx.seed, ctx.check_id, ctx.sub, tag, ctx.shard)

    @hypothesis.seed(s)
    @hyp_settings(max_examples, shrink=shrink)
    @given(strategy)
    def test(case):
        if ctx._target_sig is None:
            if ctx.out_of_time():
                # do not raise: Hypothesis would take the exception for a failure and spend minutes
                # shrinking it; the remaining examples are generated and skipped
                return
        elif ctx._shrink_until is not None and time.time() > ctx._shrink_until:
            return  # shrink budget used up: let the shrinker finish with what it has
        ctx.gen()
        body(case)

    ctx.run_hypothesis(test)


# --------------------------------------------------------------------------------------
# worker entry (fresh process per shard)


def _worker(args):
    (check_id, sub_name, tier, seed, shard, nshards, known, deadline) = args
    t0 = time.time()
    try:
        ensure_src()
        import importlib  # noqa: PLC0415

        mod = importlib.import_module(f"checks.{check_id.lower()}")
        sub = next(s for s in mod.subchecks(tier) if s.name == sub_name)
        ctx = Ctx(check_id, sub_name, tier, seed, shard, nshards, known, deadline)
        from .stackpad import padded  # noqa: PLC0415

        padded(sub.fn, ctx, shard, nshards)
        res = ctx.result()
        res["wall_s"] = time.time() - t0
        return res
    except BaseException:  # noqa: BLE001
        return {"sub": sub_name, "shard": shard, "error": traceback.format_exc(),
                "wall_s": time.time() - t0}
