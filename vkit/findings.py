"""known_findings.json: read-only at run time.

Entry: {"property": "C06", "id": "F10", "status": "open"|"fixed", "signature": [...prefix...],
        "predicate": {feature: value, ...}, "description": "...", "commit": "..."}

An *open* entry matches a violation when its signature list is a prefix of the violation's
signature and every predicate feature equals the violation's feature.  *fixed* entries match
nothing (the violation is reported again if it returns).
"""

from __future__ import annotations

import json
import os

from .core import HERE, Violation

PATH = os.path.join(HERE, "known_findings.json")


def load(prop: str | None = None) -> list[dict]:
    if not os.path.exists(PATH):
        return []
    with open(PATH) as f:
        entries = json.load(f)["findings"]
    return [e for e in entries if prop is None or e["property"] == prop]


def open_entries(prop: str) -> list[dict]:
    return [e for e in load(prop) if e.get("status") == "open"]


def matches(entry: dict, v: Violation) -> bool:
    sig = [str(s) for s in entry.get("signature", [])]
    vs = [str(s) for s in v.signature]
    if vs[: len(sig)] != sig:
        return False
    for k, want in entry.get("predicate", {}).items():
        have = v.features.get(k, None)
        if isinstance(want, list):
            if have not in want:
                return False
        elif have != want:
            return False
    return True
