"""Direct drive of the real StreamItemQueue under the deterministic scheduler (H1).

A *spec* (JSON) describes one stream: queue capacity, eager or lazy start, the item kinds the producer
pushes (settled result, pending future that succeeds or fails, result awaited inline), whether the
producer waits on a gate between items, how the source ends (normally / raises), and an optional stop
(abort after k delivered batches, with or without a reason, the way WorkQueue.cancel does it: abort the
queue, cancel the pump task, await both).  Every item result carries nested work - one harness stream
whose queue records abort() calls - so that results the queue discards can be told from results it
delivers.

``run(spec, schedule)`` returns an observation record; ``problems(obs)`` evaluates the invariants:

 C05  order          the delivered items are 0,1,2,... without gaps or repeats
      complete       without a stop the consumer gets every item that has a result up to the first one
                     that has none, then the normal end (all items, is_stopped()) or the failure of
                     the first failed item / of the source; never an error while earlier results exist
      stopped-flag   is_stopped() is only true when the source really ended normally
 C06  hang           the consumer / the abort never hangs (exact, clock-free)
      leak           afterwards the producer task and every started item coroutine have finished and no
                     task is left on the loop; nothing reached the loop's exception handler
      no-cleanup     on_abort ran (at least once) whenever the source had not ended normally
      abort-early    when abort() / the failure has been awaited, the producer task has finished: no cleanup
                     is still in flight
      discarded-work the nested work of every result that was produced but not delivered was aborted;
                     the nested work of a delivered result never is
"""

from __future__ import annotations

import asyncio

KINDS = ["settled", "fut-ok", "fut-fail", "inline", "fut-done"]


class ItemError(Exception):
    pass


class ProducerError(Exception):
    pass


class _NestedQueue:
    def __init__(self):
        self.aborts = 0

    def abort(self, reason=None):
        self.aborts += 1

    def is_stopped(self):
        return False


class _NestedStream:
    def __init__(self):
        self.queue = _NestedQueue()


def run(spec, schedule, max_steps=300):
    from graphql.execution.incremental.stream_item_queue import StreamItemQueue
    from graphql.execution.incremental.work_queue import Work, WorkResult

    from vkit.harness.sched import Hang, Sched, StepLimit

    sched = Sched(schedule, max_steps=max_steps)
    items = spec["items"]
    n = len(items)
    obs = {"delivered": [], "batches": [], "outcome": None, "error_index": None, "produced": set(),
           "started": set(), "finished": set(), "cancelled": set(), "on_abort": 0,
           "producer_returned": False, "producer_returned_before_abort": False, "aborted": False,
           "stopped_flag": None, "hang": False, "step_limit": False, "leftover_tasks": 0,
           "unhandled": [], "nested": {}, "abort_error": None, "on_abort_reasons": []}
    nested = obs["nested"]

    def result(i):
        obs["produced"].add(i)
        nested[i] = _NestedStream()
        return WorkResult(i, Work((), (), (nested[i],)))

    async def item(i, fail):
        obs["started"].add(i)
        try:
            await sched.gate(f"i{i}")
            if fail:
                raise ItemError(i)
            return result(i)
        except asyncio.CancelledError:
            obs["cancelled"].add(i)
            raise
        finally:
            obs["finished"].add(i)

    async def produce(queue):
        for i, kind in enumerate(items):
            if spec["gated_producer"]:
                await sched.gate(f"p{i}")
            if kind == "settled":
                await queue.push(result(i))
            elif kind == "inline":
                await queue.push(await item(i, False))
            elif kind == "fut-done":
                fut = sched.loop.create_future()
                fut.set_result(result(i))
                await queue.push(fut)
            else:
                await queue.push(asyncio.ensure_future(item(i, kind == "fut-fail")))
        if spec["gated_producer"] or spec["end"] == "fail":
            await sched.gate("pend")
        if spec["end"] == "fail":
            raise ProducerError("source failed")
        obs["producer_returned"] = True

    def on_abort(reason):
        obs["on_abort"] += 1
        obs["on_abort_reasons"].append(type(reason).__name__)
        if spec["on_abort_async"]:
            async def cleanup():
                await sched.gate("cleanup")
            return cleanup()
        return None

    stop = spec.get("stop")
    state = {"queue": None, "consumer": None, "nb": 0, "abort_task": None}

    async def consume(q):
        if spec.get("gated_consumer"):
            await sched.gate("c-start")
        async for batch in q.batches():
            vals = [r.value for r in batch]
            obs["batches"].append(vals)
            obs["delivered"].extend(vals)
            state["nb"] += 1
            if spec.get("gated_consumer"):
                await sched.gate(f"c{state['nb']}")

    async def do_abort():
        q = state["queue"]
        obs["aborted"] = True
        obs["producer_returned_before_abort"] = obs["producer_returned"]
        try:
            ab = q.abort(RuntimeError("stop") if stop.get("reason") else None)
            state["consumer"].cancel()
            waits = [state["consumer"]]
            if ab is not None:
                waits.append(ab)
            await asyncio.gather(*waits, return_exceptions=True)
        except Exception as e:  # noqa: BLE001
            obs["abort_error"] = repr(e)

    async def main():
        q = StreamItemQueue(produce, on_abort, eager=spec["eager"], capacity=spec["capacity"])
        state["queue"] = q
        state["consumer"] = asyncio.ensure_future(consume(q))
        if stop is not None:
            sched.add_action("abort", lambda: state["abort_task"] is None and state["nb"] >= stop["after"]
                             and (stop["after"] > 0 or True),
                             lambda: state.__setitem__("abort_task", asyncio.ensure_future(do_abort())))
        try:
            await state["consumer"]
            obs["outcome"] = "end"
        except asyncio.CancelledError:
            obs["outcome"] = "cancelled"
        except ItemError as e:
            obs["outcome"] = "item-error"
            obs["error_index"] = e.args[0]
        except ProducerError:
            obs["outcome"] = "producer-error"
        except Exception as e:  # noqa: BLE001
            obs["outcome"] = "other-error:" + repr(e)
        if state["abort_task"] is not None:
            await state["abort_task"]
        elif obs["outcome"] in ("item-error", "producer-error"):
            # the executor's final sweep aborts every stream it has registered; a queue that has failed
            # is only asked to discard what it still holds
            obs["on_abort_at_failure"] = obs["on_abort"]
            try:
                ab = q.abort(None)
                if ab is not None:
                    await ab
            except Exception as e:  # noqa: BLE001
                obs["abort_error"] = repr(e)
        obs["stopped_flag"] = q.is_stopped()
        obs["producer_done"] = q._producer_task is None or q._producer_task.done()  # noqa: SLF001

    if stop is not None:
        # without this the run could end (consumer done) before the abort was ever chosen; then it is a
        # run without stop, which is fine
        pass
    try:
        sched.run(main())
    except Hang as e:
        obs["hang"] = str(e)
    except StepLimit:
        obs["step_limit"] = True
    except Exception as e:  # noqa: BLE001
        obs["outcome"] = "harness-raised:" + repr(e)
    finally:
        sched.drain()
        obs["leftover_tasks"] = len(sched.unfinished_tasks())
        obs["unhandled"] = list(sched.unhandled)
        obs["trace"] = list(sched.trace)
        obs["taken"], obs["branching"] = list(sched.taken), list(sched.branching)
        sched.close()
    return obs


def problems(spec, obs):
    """[(property, rule, detail)]"""
    out = []
    if obs["step_limit"]:
        return out
    items = spec["items"]
    n = len(items)
    d = obs["delivered"]
    if obs["hang"]:
        out.append(("C06", "sq-hang", f"{obs['hang']}"))
        return out
    if str(obs["outcome"]).startswith(("other-error", "harness-raised")):
        out.append(("C05", "sq-raises", str(obs["outcome"])))
        return out
    if obs["abort_error"]:
        out.append(("C06", "sq-abort-raises", obs["abort_error"]))
    if d != list(range(len(d))):
        out.append(("C05", "sq-order", f"delivered {obs['batches']}"))
    # r: longest prefix of items that all have a result
    r = 0
    while r < n and r in obs["produced"]:
        r += 1
    if not obs["aborted"]:
        if obs["outcome"] == "end":
            if len(d) != n:
                out.append(("C05", "sq-complete", f"normal end after {obs['batches']} of {n} items"))
            if spec["end"] == "fail":
                out.append(("C05", "sq-complete", "the failure of the source was not raised"))
            if not obs["stopped_flag"]:
                out.append(("C05", "sq-stopped-flag", "is_stopped() is false after the normal end"))
        elif obs["outcome"] == "item-error":
            j = obs["error_index"]
            if not (j == len(d) and items[j] == "fut-fail"):
                out.append(("C05", "sq-complete", f"failure of item {j} raised after {obs['batches']}"))
        elif obs["outcome"] == "producer-error":
            if spec["end"] != "fail":
                out.append(("C05", "sq-complete", "a source failure was raised that never happened"))
            elif len(d) != r:
                out.append(("C05", "sq-complete", f"source failure raised after {obs['batches']}, but the "
                            f"first {r} items had results (produced {sorted(obs['produced'])}, "
                            f"cancelled {sorted(obs['cancelled'])})"))
        if obs["outcome"] in ("item-error", "producer-error") and not obs["on_abort"]:
            out.append(("C06", "sq-no-cleanup", f"on_abort never ran after {obs['outcome']}"))
    elif not obs["producer_returned_before_abort"] and not obs["on_abort"]:
        out.append(("C06", "sq-no-cleanup", "on_abort never ran although the source had not ended when the "
                    "queue was aborted"))
    if obs["stopped_flag"] and not obs["producer_returned"]:
        out.append(("C05", "sq-stopped-flag", "is_stopped() is true but the source did not end normally"))
    # leaks
    if not obs.get("producer_done", True):
        out.append(("C06", "sq-abort-early", "the producer task (source cleanup) is still running after the "
                    "abort was awaited"))
    unfinished = sorted(obs["started"] - obs["finished"])
    if unfinished:
        out.append(("C06", "sq-leak", f"item coroutines {unfinished} never finished"))
    if obs["leftover_tasks"]:
        out.append(("C06", "sq-leak", f"{obs['leftover_tasks']} tasks left on the loop"))
    if obs["unhandled"]:
        out.append(("C06", "sq-unhandled", obs["unhandled"][0][:200]))
    # nested work of produced results
    if obs["outcome"] != "end" or obs["aborted"]:
        for i in sorted(obs["produced"]):
            a = obs["nested"][i].queue.aborts
            if i in d and a:
                out.append(("C06", "sq-delivered-work-aborted", f"item {i} was delivered, its nested stream "
                            f"was aborted {a}x"))
            elif i not in d and not a:
                out.append(("C06", "sq-discarded-work", f"item {i} had a result that was never delivered; "
                            f"its nested stream was not aborted (delivered {obs['batches']})"))
    else:
        for i in sorted(obs["produced"]):
            if obs["nested"][i].queue.aborts:
                out.append(("C06", "sq-delivered-work-aborted", f"item {i}: nested stream aborted after a "
                            "normal end"))
    return out


def enumerate_specs(max_items):
    """Every spec with <= max_items items (bounded-exhaustive; ~40 000 for max_items = 3)."""
    import itertools

    stops = [None, {"after": 0, "reason": False}, {"after": 1, "reason": True}, {"after": 2, "reason": False}]
    for n in range(max_items + 1):
        for items in itertools.product(KINDS, repeat=n):
            for cap, eager, gp, gc, end, oa, stop in itertools.product(
                    (1, 2), (False, True), (False, True), (False, True), ("end", "fail"), (False, True), stops):
                yield {"capacity": cap, "eager": eager, "items": list(items), "gated_producer": gp,
                       "gated_consumer": gc, "end": end, "on_abort_async": oa, "stop": stop}


def eval_spec(spec, max_orders, prop):
    """Depth-first over the completion orders of one spec (capped): (violations of `prop`, runs, exhausted,
    set of outcome classes)."""
    from vkit.core import Violation
    from vkit.harness.sched import next_schedule

    vs, n, schedule, classes = [], 0, [], set()
    exhausted = False
    while n < max_orders:
        obs = run(spec, schedule)
        n += 1
        classes.add(str(obs["outcome"]).split(":")[0] + ("+abort" if obs["aborted"] else ""))
        for p, rule, detail in problems(spec, obs):
            if p == prop:
                case = {"sq_spec": spec, "schedule": list(obs["taken"])}
                vs.append(Violation((prop, rule), f"{detail}; spec {spec} order {obs['trace']}", case,
                                    {"rule": rule, "stream_queue": True}))
        schedule = next_schedule(obs["taken"], obs["branching"])
        if schedule is None:
            exhausted = True
            break
    return vs, n, exhausted, classes


def subcheck(prop, max_items, max_orders, stride):
    """Sub-check body shared by C05 and C06 (each reports the invariants of its own property)."""
    def fn(ctx, shard, nshards):
        total = 0
        for i, spec in enumerate(enumerate_specs(max_items)):
            if (i // stride) % nshards != shard or i % stride:
                continue
            if ctx.out_of_time():
                ctx.notes[f"sq_stopped_by_budget_at_spec_shard{shard}"] = i
                break
            vs, n, exhausted, classes = eval_spec(spec, max_orders, prop)
            total += 1
            ctx.count(n)
            ctx.cls("sq:every-order-enumerated" if exhausted else "sq:orders-capped")
            for c in classes:
                ctx.cls("sq-outcome:" + c)
            interesting = len(spec["items"]) >= 2 and (spec["stop"] is not None or spec["end"] == "fail" or
                                                       "fut-fail" in spec["items"])
            if interesting:
                ctx.nontriv({"sq": spec}, "stream-queue")
                ctx.sample("stream-queue:" + "+".join(sorted(classes)), {"sq_spec": spec, "schedule": []})
            ctx.report(vs)
        ctx.notes[f"sq_specs_shard{shard}"] = total
        ctx.notes["sq_bounds"] = {"max_items": max_items, "orders_cap": max_orders, "stride": stride}

    return fn


def replay(case, prop):
    from vkit.core import Violation

    obs = run(case["sq_spec"], case["schedule"])
    return [Violation((p, rule), detail, case, {"rule": rule, "stream_queue": True})
            for p, rule, detail in problems(case["sq_spec"], obs) if p == prop]
