"""H2 - harness resolvers driven by the data oracle of vkit.ref.execute (pure, logging)."""

from __future__ import annotations

from vkit.ref.execute import Raise


class Boom(Exception):
    pass


def old_style(coro):
    """The same awaitable as a generator-based coroutine (``types.coroutine``): accepted by ``await``, no
    ``__await__`` attribute - the third kind of awaitable the library's own ``is_awaitable`` knows."""
    import types

    @types.coroutine
    def gen():
        return (yield from coro.__await__())

    return gen()


def make_field_resolver(oracle, log, out_names=False):
    def resolve(src, info, **kwargs):
        args = {(k[3:] if out_names and k.startswith("py_") else k): v for k, v in kwargs.items()}
        path = info.path.as_list()
        log.append((path, f"{info.parent_type.name}.{info.field_name}", args))
        raw = oracle.raw(src, info.parent_type.name, info.field_name, args)
        if isinstance(raw, Raise):
            raise Boom(raw.message)
        return raw

    return resolve


# ------------------------------------------------------------------------------------------
# async plan: which results are awaitables / async iterators (decided per response path)


class AsyncPlan:
    def __init__(self, seed, field=0, item=0, iterator=0, typ=0, long=0, close=0):
        self.seed = seed
        # close: share of generator sources whose finalisation is asynchronous (the `finally` of the
        # generator awaits a gate before the source counts as finalised)
        self.d = {"field": field, "item": item, "iter": iterator, "type": typ, "close": close}
        # long > 0: every non-empty list of a top-level field is stretched to this length (C06's stratum
        # for the back-pressure of StreamItemQueue, whose capacity of 100 is not configurable from outside)
        self.long = long

    def is_async(self, kind, path):
        from vkit.ref.execute import H

        if self.long and kind == "item" and len(path) == 2 and isinstance(path[1], int):
            # in a stretched list only the items around the interesting positions are awaitable
            if path[1] not in (0, 1, 99, 100, 101, self.long - 1):
                return False
        return self.d[kind] > 0 and H(self.seed, kind, path) % 256 < self.d[kind]


def hide_typename(v):
    """Records for the is_type_of mode: the runtime type is not visible to the default type resolver."""
    if isinstance(v, dict) and "__typename" in v:
        return {("__tn" if k == "__typename" else k): x for k, x in v.items()}
    if isinstance(v, list):
        return [hide_typename(x) for x in v]
    return v


def make_async_resolvers(oracle, sched, plan, events, log, out_names=False, sources=None,
                         typing="resolver", stats=None):
    """(field_resolver, type_resolver) whose awaitables are gates of the scheduler."""
    import asyncio

    sources = sources if sources is not None else []
    stats = stats if stats is not None else {"inflight": 0}
    hide = hide_typename if typing == "is_type_of" else (lambda v: v)

    def pstr(path):
        return "/".join(str(p) for p in path)

    def flavour(coro, kind, path):
        from vkit.ref.execute import H

        # one awaitable in eight is a generator-based coroutine instead of a native one
        return old_style(coro) if H(plan.seed, "flavour:" + kind, path) % 8 == 0 else coro

    def wrap(raw, path):
        raw = hide(raw)
        if isinstance(raw, list):
            if plan.is_async("iter", path):
                rec = {"path": list(path), "started": 0, "closed": 0, "finalized": 0, "exhausted": 0,
                       "next_calls": 0}
                sources.append(rec)

                async def agen():
                    rec["started"] += 1
                    try:
                        for i, item in enumerate(raw):
                            rec["next_calls"] += 1
                            if plan.is_async("item", path + [i]):
                                await sched.gate("it:" + pstr(path + [i]))
                            if isinstance(item, Raise):
                                raise Boom(item.message)
                            yield item
                        rec["exhausted"] += 1
                    finally:
                        try:
                            if plan.is_async("close", path):
                                rec["closing"] = rec.get("closing", 0) + 1
                                await sched.gate("close:" + pstr(path))
                        finally:
                            # a cancellation that interrupts the asynchronous part still ends the finalisation
                            rec["finalized"] += 1

                return agen()
            out = []
            for i, item in enumerate(raw):
                if plan.is_async("item", path + [i]) and not isinstance(item, list):
                    out.append(flavour(_later(sched, "i:" + pstr(path + [i]), item, events, path + [i], stats),
                                       "item", path + [i]))
                else:
                    out.append(item)
            return out
        return raw

    def resolve(src, info, **kwargs):
        args = {(k[3:] if out_names and k.startswith("py_") else k): v for k, v in kwargs.items()}
        path = info.path.as_list()
        log.append((path, f"{info.parent_type.name}.{info.field_name}", args))
        if len(path) == 1 and info.root_value is not src and stats is not None:
            # at a top-level field the source value *is* the root value of this execution
            stats["root_value_mismatch"] = stats.get("root_value_mismatch", 0) + 1
        events.append(("start", path))
        raw = oracle.raw(src, info.parent_type.name, info.field_name, args)
        if plan.long and len(path) == 1 and isinstance(raw, list) and raw:
            raw = [raw[i % len(raw)] for i in range(plan.long)]
        if plan.is_async("field", path):
            async def later():
                stats["inflight"] += 1
                try:
                    try:
                        await sched.gate("f:" + pstr(path))
                    except asyncio.CancelledError:
                        events.append(("cancel", path))
                        if plan.is_async("close", path):
                            # a resolver that needs a moment to unwind after it was cancelled (same stratum as
                            # the asynchronous finalisation of sources); it still counts as in flight
                            await sched.gate("close:unwind:" + pstr(path))
                        raise
                    events.append(("finish", path))
                    if isinstance(raw, Raise):
                        raise Boom(raw.message)
                    return wrap(raw, path)
                finally:
                    stats["inflight"] -= 1

            return flavour(later(), "field", path)
        events.append(("finish", path))
        if isinstance(raw, Raise):
            raise Boom(raw.message)
        return wrap(raw, path)

    def is_type_of(name, value, info):
        from vkit.ref.execute import H

        ok = (value.get("__tn") if isinstance(value, dict) else None) == name
        path = info.path.as_list()
        if not ok and H(plan.seed, "falsy", path + [name]) % 3 == 0:
            ok = None  # "no" as a function that falls off its end says it: falsy, but not False
        if plan.is_async("type", path + [name]):
            async def later():
                await sched.gate("is:" + pstr(path) + ":" + name)
                return ok

            return flavour(later(), "type", path + [name])
        return ok

    resolve.is_type_of = is_type_of

    def resolve_type(value, info, abstract_type):
        name = value.get("__typename") if isinstance(value, dict) else None
        path = info.path.as_list()
        if plan.is_async("type", path):
            async def later():
                await sched.gate("t:" + pstr(path))
                return name

            return later()
        return name

    return resolve, resolve_type


def _later(sched, label, value, events, path, stats=None):
    async def later():
        if stats is not None:
            stats["inflight"] += 1
        try:
            await sched.gate(label)
            if isinstance(value, Raise):
                raise Boom(value.message)
            return value
        finally:
            if stats is not None:
                stats["inflight"] -= 1

    return later()
