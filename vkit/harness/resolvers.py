"""H2 - harness resolvers driven by the data oracle of vkit.ref.execute (pure, logging)."""

from __future__ import annotations

from vkit.ref.execute import Raise


class Boom(Exception):
    pass


def make_field_resolver(oracle, log, out_names=False):
    def resolve(src, info, **kwargs):
        args = {(k[3:] if out_names and k.startswith("py_") else k): v for k, v in kwargs.items()}
        path = info.path.as_list()
        log.append((path, f"{info.parent_type.name}.{info.field_name}", args))
        raw = oracle.raw(src, info.parent_type.name, info.field_name, args)
        if isinstance(raw, Raise):
            raise Boom(raw.message)
        return raw

    return resolve
