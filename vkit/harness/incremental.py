"""H3 - incremental delivery: assembler, protocol monitor and the scheduled run function.

Assembler applies payloads as the delivery format prescribes (pending -> id table; incremental[].data
merged at path + subPath, incremental[].items appended; completed) while the monitor checks the C05
protocol invariants after every payload.
"""

from __future__ import annotations

import copy


def defer_nesting(tree):
    """label -> {enclosing label: set of relative response-key paths}: the labelled @defer fragments that
    statically enclose the fragment on *every* route (named fragments can be spread in several places),
    each with the response keys between the enclosing fragment's position and the nested one's, on any
    route.  An instance at path P is nested in an instance of the enclosing label at path Q only if
    P = Q + one of these key paths (list indices dropped)."""
    frags = {d["n"]: d for d in tree["defs"] if d["k"] == "frag"}
    routes = {}  # label -> list of {enclosing label: relative key path}, one per static route

    def label_of(dirs):
        for d in dirs or []:
            if d["n"] == "defer":
                for n, v in d["args"]:
                    if n == "label" and v["k"] == "str":
                        return v["v"]
        return None

    def enter(lab, stack, keys):
        routes.setdefault(lab, []).append({e: tuple(keys[len(k):]) for e, k in stack})
        return stack + [(lab, list(keys))]

    def walk(sel, stack, keys, seen):
        for s in sel:
            if s["k"] == "field":
                if s["sel"]:
                    walk(s["sel"], stack, keys + [s["alias"] or s["n"]], seen)
            elif s["k"] == "inline":
                lab = label_of(s["dirs"])
                walk(s["sel"], enter(lab, stack, keys) if lab is not None else stack, keys, seen)
            else:
                lab = label_of(s["dirs"])
                st = enter(lab, stack, keys) if lab is not None else stack
                f = frags.get(s["n"])
                key = (s["n"], tuple(l for l, _k in st), tuple(keys))
                if f is not None and key not in seen and len(keys) < 12:
                    walk(f["sel"], st, keys, seen | {key})

    for d in tree["defs"]:
        if d["k"] == "op":
            walk(d["sel"], [], [], frozenset())
    out = {}
    for lab, rs in routes.items():
        always = set.intersection(*(set(r) for r in rs)) if rs else set()
        out[lab] = {e: {r[e] for r in rs} for e in always}
    return out


class Assembler:
    def __init__(self, nesting=None):
        self.data = None
        self.errors = []           # all error dicts seen, in order
        self.pending = {}          # id -> {"path", "label"}
        self.ever = set()
        self.completed_with_errors = []  # [{"id", "path", "label", "errors"}]
        self.completed_ok = []
        self.problems = []         # (rule, detail)
        self.payloads = 0
        self.done = False
        self.nesting = nesting or {}
        self.shapes = []           # canonical payload shape summaries (for distinctness)
        self.stream_batches = []   # sizes of items batches
        self.announced = []        # (id, path, label) in announcement order
        self.orphans = []          # (path, data) of incremental entries whose target did not exist yet
        self._new = []

    def problem(self, rule, detail):
        self.problems.append((rule, detail))

    def _announce(self, entries):
        for p in entries or []:
            pid = p.get("id")
            if pid in self.ever:
                self.problem("id-reused", f"pending id {pid!r} announced twice")
                continue
            self.ever.add(pid)
            label = p.get("label")
            path = list(p.get("path", []))
            self.pending[pid] = {"path": path, "label": label}
            self.announced.append((pid, path, label))
            self._new.append(pid)

    def _check_nesting(self):
        """After a whole payload: an id announced in it must not have an announced enclosing fragment
        (statically enclosing label, prefix path) that is still pending once the payload is applied."""
        for pid in self._new:
            me = self.pending.get(pid)
            if me is None:
                continue
            for qid, q in self.pending.items():
                if qid == pid or q["label"] is None or me["path"][:len(q["path"])] != q["path"]:
                    continue
                rels = self.nesting.get(me["label"], {}).get(q["label"])
                rel = tuple(k for k in me["path"][len(q["path"]):] if not isinstance(k, int))
                # one label can have several instances at one path (a named fragment spread on two routes):
                # the announcement is justified as soon as one of them has completed
                justified = any(d["label"] == q["label"] and d["path"] == q["path"] for d in self.completed_ok)
                if rels is not None and rel in rels and not justified:
                    self.problem("nested-announced-while-parent-pending",
                                 f"{me['label']!r} at {me['path']} announced while enclosing {q['label']!r} "
                                 f"(id {qid}) at {q['path']} is still pending")
        self._new = []

    def _walk(self, path):
        cur = self.data
        for k in path:
            if isinstance(cur, dict) and k in cur:
                cur = cur[k]
            elif isinstance(cur, list) and isinstance(k, int) and 0 <= k < len(cur):
                cur = cur[k]
            else:
                return _MISSING
        return cur

    def initial(self, f):
        self.payloads += 1
        self.data = copy.deepcopy(f.get("data"))
        self.errors += list(f.get("errors", []))
        self._announce(f.get("pending"))
        if "hasNext" not in f:
            self.problem("has-next-missing", "initial payload without hasNext")
        elif not f["hasNext"]:
            self.done = True
            if self.pending:
                self.problem("has-next-false-with-pending", f"ids {sorted(self.pending)} still pending")
        elif not self.pending:
            self.problem("has-next-without-pending", "initial payload has hasNext but announces nothing")
        self._check_nesting()
        self.shapes.append(("initial", len(f.get("pending", []))))

    def subsequent(self, f):
        self.payloads += 1
        if self.done:
            self.problem("payload-after-last", f"payload after hasNext: false: {str(f)[:120]}")
        extra = set(f) - {"pending", "incremental", "completed", "hasNext", "extensions"}
        if extra:
            self.problem("unknown-payload-keys", str(sorted(extra)))
        self._announce(f.get("pending"))
        for inc in f.get("incremental", []) or []:
            pid = inc.get("id")
            self.errors += list(inc.get("errors", []))
            if pid not in self.pending:
                self.problem("incremental-for-unknown-id",
                             f"incremental entry targets id {pid!r}, pending {sorted(self.pending)}")
                continue
            path = self.pending[pid]["path"] + list(inc.get("subPath", []))
            target = self._walk(path)
            if "items" in inc:
                if not isinstance(target, list):
                    self.problem("stream-target-not-list", f"id {pid} path {path}: {type(target).__name__}")
                    continue
                target.extend(copy.deepcopy(inc["items"] or []))
                self.stream_batches.append(len(inc["items"] or []))
            elif "data" in inc:
                if not isinstance(target, dict):
                    self.problem("defer-target-not-object", f"id {pid} path {path}: "
                                 f"{'missing' if target is _MISSING else type(target).__name__}")
                    if target is _MISSING:
                        self.orphans.append((path, copy.deepcopy(inc["data"] or {})))
                    continue
                _merge(target, copy.deepcopy(inc["data"] or {}), self, path)
            else:
                self.problem("incremental-without-data-or-items", str(inc)[:100])
        for comp in f.get("completed", []) or []:
            pid = comp.get("id")
            if pid not in self.pending:
                self.problem("completed-for-unknown-id",
                             f"completed entry for id {pid!r}, pending {sorted(self.pending)}, "
                             f"ever announced: {pid in self.ever}, with errors: {bool(comp.get('errors'))}")
                self.errors += list(comp.get("errors", []))
                continue
            info = self.pending.pop(pid)
            if comp.get("errors"):
                self.errors += list(comp["errors"])
                self.completed_with_errors.append(dict(info, id=pid, errors=comp["errors"]))
            else:
                self.completed_ok.append(dict(info, id=pid))
        if "hasNext" not in f:
            self.problem("has-next-missing", "payload without hasNext")
        elif not f["hasNext"]:
            self.done = True
            if self.pending:
                self.problem("has-next-false-with-pending", f"ids {sorted(self.pending)} never completed")
        self._check_nesting()
        self.shapes.append((len(f.get("pending", []) or []), len(f.get("incremental", []) or []),
                            len(f.get("completed", []) or []), bool(f.get("hasNext"))))

    def finish(self):
        # classify "target missing" problems: did the target object arrive later in the stream?
        self.late_parents = []
        for rule, detail in self.problems:
            if rule == "defer-target-not-object" and detail.endswith(": missing"):
                self.late_parents.append(True)
        if not self.done:
            self.problem("stream-ended-with-has-next", "the payload stream ended but the last payload "
                         "had hasNext: true")
        if self.pending:
            self.problem("never-completed", f"ids {sorted(self.pending)} were announced but never completed")


_MISSING = object()


def _merge(target, data, asm, path):
    for k, v in data.items():
        if k in target and isinstance(target[k], dict) and isinstance(v, dict):
            _merge(target[k], v, asm, path + [k])
        else:
            target[k] = v


# ------------------------------------------------------------------------------------------


def run_incremental(env, op_name, variables, oseed, density, plan, schedule, early, stop=None,
                    typing="resolver"):
    """Execute with experimental_execute_incrementally under the scheduler; the consumer's pulls are
    scheduler gates.  Returns a dict with payloads and harness observations."""
    from inspect import isawaitable

    from graphql import ExecutionResult
    from graphql.execution import experimental_execute_incrementally

    from checks import c02
    from vkit.harness.resolvers import make_async_resolvers
    from vkit.harness.sched import Sched
    from vkit.ref import execute as R5

    oracle = R5.Oracle(env.m, oseed, density)
    sched = Sched(schedule)
    events, log, sources = [], [], []
    resolve, resolve_type = make_async_resolvers(oracle, sched, plan, events, log, env.out_names,
                                                 sources=sources)
    kind = next(k for n, k in c02.env_ops(env) if n == op_name)
    out = {"initial": None, "subsequent": [], "single": None, "end": None, "raised": None,
           "sources": sources, "events": events}

    async def main():
        r = experimental_execute_incrementally(
            env.schema, env.doc, root_value=oracle.root(env.m[kind]), variable_values=variables,
            operation_name=op_name, field_resolver=resolve, type_resolver=resolve_type,
            enable_early_execution=early)
        if isawaitable(r):
            r = await r
        if isinstance(r, ExecutionResult):
            out["single"] = r
            return
        out["initial"] = r.initial_result
        it = r.subsequent_results
        while True:
            await sched.gate(f"pull:{len(out['subsequent'])}")
            try:
                p = await it.__anext__()
            except StopAsyncIteration:
                out["end"] = "stop"
                break
            out["subsequent"].append(p)

    try:
        sched.run(main())
        out["trace"] = list(sched.trace)
        out["varied"] = sched.varied
        out["unhandled"] = list(sched.unhandled)
        out["gates"] = len(sched.gates)
        sched.drain()
        out["tasks_left"] = len(sched.unfinished_tasks())
        return out
    finally:
        sched.close()
