"""H3 - incremental delivery: assembler, protocol monitor and the scheduled run function.

Assembler applies payloads as the delivery format prescribes (pending -> id table; incremental[].data
merged at path + subPath, incremental[].items appended; completed) while the monitor checks the C05
protocol invariants after every payload.
"""

from __future__ import annotations

import copy


def defer_nesting(tree):
    """label -> labels of @defer fragments that statically enclose it on every route (named fragments
    can be spread in several places)."""
    frags = {d["n"]: d for d in tree["defs"] if d["k"] == "frag"}
    routes = {}  # label -> list of sets of enclosing labels, one per static route to the fragment

    def label_of(dirs):
        for d in dirs or []:
            if d["n"] == "defer":
                for n, v in d["args"]:
                    if n == "label" and v["k"] == "str":
                        return v["v"]
        return None

    def walk(sel, stack, seen):
        for s in sel:
            if s["k"] == "field":
                if s["sel"]:
                    walk(s["sel"], stack, seen)
            elif s["k"] == "inline":
                lab = label_of(s["dirs"])
                st = stack
                if lab is not None:
                    routes.setdefault(lab, []).append(set(stack))
                    st = stack + [lab]
                walk(s["sel"], st, seen)
            else:
                lab = label_of(s["dirs"])
                st = stack
                if lab is not None:
                    routes.setdefault(lab, []).append(set(stack))
                    st = stack + [lab]
                f = frags.get(s["n"])
                if f is not None and (s["n"], tuple(st)) not in seen:
                    walk(f["sel"], st, seen | {(s["n"], tuple(st))})

    for d in tree["defs"]:
        if d["k"] == "op":
            walk(d["sel"], [], frozenset())
    # a label is *necessarily* nested in those labels that enclose it on every route
    return {lab: set.intersection(*rs) if rs else set() for lab, rs in routes.items()}


class Assembler:
    def __init__(self, nesting=None):
        self.data = None
        self.errors = []           # all error dicts seen, in order
        self.pending = {}          # id -> {"path", "label"}
        self.ever = set()
        self.completed_with_errors = []  # [{"id", "path", "label", "errors"}]
        self.completed_ok = []
        self.problems = []         # (rule, detail)
        self.payloads = 0
        self.done = False
        self.nesting = nesting or {}
        self.shapes = []           # canonical payload shape summaries (for distinctness)
        self.stream_batches = []   # sizes of items batches
        self.announced = []        # (id, path, label) in announcement order
        self.orphans = []          # (path, data) of incremental entries whose target did not exist yet
        self._new = []

    def problem(self, rule, detail):
        self.problems.append((rule, detail))

    def _announce(self, entries):
        for p in entries or []:
            pid = p.get("id")
            if pid in self.ever:
                self.problem("id-reused", f"pending id {pid!r} announced twice")
                continue
            self.ever.add(pid)
            label = p.get("label")
            path = list(p.get("path", []))
            self.pending[pid] = {"path": path, "label": label}
            self.announced.append((pid, path, label))
            self._new.append(pid)

    def _check_nesting(self):
        """After a whole payload: an id announced in it must not have an announced enclosing fragment
        (statically enclosing label, prefix path) that is still pending once the payload is applied."""
        for pid in self._new:
            me = self.pending.get(pid)
            if me is None:
                continue
            for qid, q in self.pending.items():
                if qid != pid and q["label"] is not None and q["label"] in self.nesting.get(me["label"], ()) \
                        and me["path"][:len(q["path"])] == q["path"]:
                    self.problem("nested-announced-while-parent-pending",
                                 f"{me['label']!r} at {me['path']} announced while enclosing {q['label']!r} "
                                 f"(id {qid}) at {q['path']} is still pending")
        self._new = []

    def _walk(self, path):
        cur = self.data
        for k in path:
            if isinstance(cur, dict) and k in cur:
                cur = cur[k]
            elif isinstance(cur, list) and isinstance(k, int) and 0 <= k < len(cur):
                cur = cur[k]
            else:
                return _MISSING
        return cur

    def initial(self, f):
        self.payloads += 1
        self.data = copy.deepcopy(f.get("data"))
        self.errors += list(f.get("errors", []))
        self._announce(f.get("pending"))
        if "hasNext" not in f:
            self.problem("has-next-missing", "initial payload without hasNext")
        elif not f["hasNext"]:
            self.done = True
            if self.pending:
                self.problem("has-next-false-with-pending", f"ids {sorted(self.pending)} still pending")
        elif not self.pending:
            self.problem("has-next-without-pending", "initial payload has hasNext but announces nothing")
        self._check_nesting()
        self.shapes.append(("initial", len(f.get("pending", []))))

    def subsequent(self, f):
        self.payloads += 1
        if self.done:
            self.problem("payload-after-last", f"payload after hasNext: false: {str(f)[:120]}")
        extra = set(f) - {"pending", "incremental", "completed", "hasNext", "extensions"}
        if extra:
            self.problem("unknown-payload-keys", str(sorted(extra)))
        self._announce(f.get("pending"))
        for inc in f.get("incremental", []) or []:
            pid = inc.get("id")
            self.errors += list(inc.get("errors", []))
            if pid not in self.pending:
                self.problem("incremental-for-unknown-id",
                             f"incremental entry targets id {pid!r}, pending {sorted(self.pending)}")
                continue
            path = self.pending[pid]["path"] + list(inc.get("subPath", []))
            target = self._walk(path)
            if "items" in inc:
                if not isinstance(target, list):
                    self.problem("stream-target-not-list", f"id {pid} path {path}: {type(target).__name__}")
                    continue
                target.extend(copy.deepcopy(inc["items"] or []))
                self.stream_batches.append(len(inc["items"] or []))
            elif "data" in inc:
                if not isinstance(target, dict):
                    self.problem("defer-target-not-object", f"id {pid} path {path}: "
                                 f"{'missing' if target is _MISSING else type(target).__name__}")
                    if target is _MISSING:
                        self.orphans.append((path, copy.deepcopy(inc["data"] or {})))
                    continue
                _merge(target, copy.deepcopy(inc["data"] or {}), self, path)
            else:
                self.problem("incremental-without-data-or-items", str(inc)[:100])
        for comp in f.get("completed", []) or []:
            pid = comp.get("id")
            if pid not in self.pending:
                self.problem("completed-for-unknown-id",
                             f"completed entry for id {pid!r}, pending {sorted(self.pending)}, "
                             f"ever announced: {pid in self.ever}, with errors: {bool(comp.get('errors'))}")
                self.errors += list(comp.get("errors", []))
                continue
            info = self.pending.pop(pid)
            if comp.get("errors"):
                self.errors += list(comp["errors"])
                self.completed_with_errors.append(dict(info, id=pid, errors=comp["errors"]))
            else:
                self.completed_ok.append(dict(info, id=pid))
        if "hasNext" not in f:
            self.problem("has-next-missing", "payload without hasNext")
        elif not f["hasNext"]:
            self.done = True
            if self.pending:
                self.problem("has-next-false-with-pending", f"ids {sorted(self.pending)} never completed")
        self._check_nesting()
        self.shapes.append((len(f.get("pending", []) or []), len(f.get("incremental", []) or []),
                            len(f.get("completed", []) or []), bool(f.get("hasNext"))))

    def finish(self):
        # classify "target missing" problems: did the target object arrive later in the stream?
        self.late_parents = []
        for rule, detail in self.problems:
            if rule == "defer-target-not-object" and detail.endswith(": missing"):
                self.late_parents.append(True)
        if not self.done:
            self.problem("stream-ended-with-has-next", "the payload stream ended but the last payload "
                         "had hasNext: true")
        if self.pending:
            self.problem("never-completed", f"ids {sorted(self.pending)} were announced but never completed")


_MISSING = object()


def _merge(target, data, asm, path):
    for k, v in data.items():
        if k in target and isinstance(target[k], dict) and isinstance(v, dict):
            _merge(target[k], v, asm, path + [k])
        else:
            target[k] = v


# ------------------------------------------------------------------------------------------


def run_incremental(env, op_name, variables, oseed, density, plan, schedule, early, stop=None,
                    typing="resolver"):
    """Execute with experimental_execute_incrementally under the scheduler; the consumer's pulls are
    scheduler gates.  Returns a dict with payloads and harness observations."""
    from inspect import isawaitable

    from graphql import ExecutionResult
    from graphql.execution import experimental_execute_incrementally

    from checks import c02
    from vkit.harness.resolvers import make_async_resolvers
    from vkit.harness.sched import Sched
    from vkit.ref import execute as R5

    oracle = R5.Oracle(env.m, oseed, density)
    sched = Sched(schedule)
    events, log, sources = [], [], []
    resolve, resolve_type = make_async_resolvers(oracle, sched, plan, events, log, env.out_names,
                                                 sources=sources)
    kind = next(k for n, k in c02.env_ops(env) if n == op_name)
    out = {"initial": None, "subsequent": [], "single": None, "end": None, "raised": None,
           "sources": sources, "events": events}

    async def main():
        r = experimental_execute_incrementally(
            env.schema, env.doc, root_value=oracle.root(env.m[kind]), variable_values=variables,
            operation_name=op_name, field_resolver=resolve, type_resolver=resolve_type,
            enable_early_execution=early)
        if isawaitable(r):
            r = await r
        if isinstance(r, ExecutionResult):
            out["single"] = r
            return
        out["initial"] = r.initial_result
        it = r.subsequent_results
        while True:
            await sched.gate(f"pull:{len(out['subsequent'])}")
            try:
                p = await it.__anext__()
            except StopAsyncIteration:
                out["end"] = "stop"
                break
            out["subsequent"].append(p)

    try:
        sched.run(main())
        out["trace"] = list(sched.trace)
        out["varied"] = sched.varied
        out["unhandled"] = list(sched.unhandled)
        out["gates"] = len(sched.gates)
        sched.drain()
        out["tasks_left"] = len(sched.unfinished_tasks())
        return out
    finally:
        sched.close()
