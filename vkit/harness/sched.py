"""H1 - deterministic completion-order scheduler on a private asyncio loop.

Every harness awaitable waits on a *gate* future.  A controller callback re-queues itself until the
loop's ready queue is empty (quiescence), then consumes the next integer of the schedule to pick one
enabled action: release a gate, or run a harness action (consumer pull, stop, ...).  The run is a pure
function of (case, schedule); hang detection is exact and clock-free: quiescent, nothing enabled,
main not done.

Trusted base: ``loop._ready`` / ``loop._scheduled`` of CPython's BaseEventLoop.
"""

from __future__ import annotations

import asyncio


class Hang(Exception):
    pass


class StepLimit(Exception):
    """The run needed more scheduler decisions than the harness allows: inconclusive, never a violation."""


class Sched:
    def __init__(self, schedule=None, max_steps=4000):
        self.loop = asyncio.new_event_loop()
        self.schedule = list(schedule or [])
        self.pos = 0
        self.gates = []          # [label, future]
        self._open = []          # the gates that are not done yet, in creation order
        self.actions = {}        # name -> (enabled_fn, do_fn)  harness actions
        self.trace = []          # labels of actions taken, in order
        self.varied = 0          # decisions that had >= 2 alternatives
        self.branching = []      # number of enabled actions at each decision (for enumeration)
        self.taken = []          # index taken at each decision
        self.hang = False
        self.step_limit = False
        self.main_task = None
        self.max_steps = max_steps
        self.steps = 0
        self.unhandled = []      # loop exception-handler reports
        self.on_quiescent = None  # optional hook(sched) called at every quiescence
        self.finish_when = None  # optional predicate: stop only when it holds (default: main done)
        self.closing = False     # set by close(): gates created from then on are open (nothing can hang)
        self.loop.set_exception_handler(lambda loop, ctx: self.unhandled.append(
            str(ctx.get("message")) + ": " + repr(ctx.get("exception"))))

    # ---- gates -----------------------------------------------------------------------------
    def gate(self, label):
        fut = self.loop.create_future()
        if self.closing:
            fut.set_result(None)
        g = [label, fut]
        self.gates.append(g)
        self._open.append(g)
        return fut

    def pending_gates(self):
        # creation order; done gates are dropped so that a tick costs O(open gates), not O(all gates ever)
        self._open = [g for g in self._open if not g[1].done()]
        return self._open

    def add_action(self, name, enabled, do):
        self.actions[name] = (enabled, do)

    # ---- controller ----------------------------------------------------------------------------
    def _busy(self):
        return any(not h._cancelled for h in self.loop._ready)  # noqa: SLF001

    def _next(self, n):
        v = self.schedule[self.pos] if self.pos < len(self.schedule) else 0
        self.pos += 1
        if n > 1:
            self.varied += 1
        self.branching.append(n)
        self.taken.append(v % n)
        return v % n

    def _tick(self):
        if self._busy():
            self.loop.call_soon(self._tick)
            return
        # quiescent
        if self.on_quiescent is not None:
            self.on_quiescent(self)
            if self._busy():
                self.loop.call_soon(self._tick)
                return
        done = self.main_task.done() if self.finish_when is None else self.finish_when(self)
        if done:
            self.loop.stop()
            return
        self.steps += 1
        open_gates = self.pending_gates()
        actions = [name for name, (en, _do) in self.actions.items() if en()]
        n_enabled = len(open_gates) + len(actions)
        if not n_enabled:
            self.hang = True
            self.loop.stop()
            return
        if self.steps > self.max_steps:
            self.step_limit = True
            self.loop.stop()
            return
        i = self._next(n_enabled)  # gates in creation order, then the harness actions
        if i < len(open_gates):
            x = open_gates[i]
            self.trace.append("release:" + str(x[0]))
            x[1].set_result(None)
        else:
            x = actions[i - len(open_gates)]
            self.trace.append("action:" + x)
            self.actions[x][1]()
        self.loop.call_soon(self._tick)

    def run(self, main_coro):
        """Run main_coro to completion under the schedule. Returns its result or raises."""
        asyncio.set_event_loop(self.loop)
        self.main_task = self.loop.create_task(main_coro)
        self.loop.call_soon(self._tick)
        self.loop.run_forever()
        if self.step_limit:
            raise StepLimit(f"more than {self.max_steps} scheduler decisions")
        if self.hang:
            raise Hang(f"hang after {self.trace[-6:]} with gates {[g[0] for g in self.pending_gates()]}")
        return self.main_task.result()

    def resume(self, finish_when):
        """Continue driving the loop (after run) until finish_when(self) holds at a quiescence."""
        self.finish_when = finish_when
        self.hang = False
        self.loop.call_soon(self._tick)
        self.loop.run_forever()
        return not self.hang

    def drain(self, release_all=True, rounds=200):
        """Let the outside world finish: release every pending gate, run to quiescence, repeat."""
        for _ in range(rounds):
            if release_all:
                for g in self.pending_gates():
                    g[1].set_result(None)
            self.loop.call_soon(self.loop.stop)
            self.loop.run_forever()
            if not self._busy() and not (release_all and self.pending_gates()):
                # one more turn for callbacks queued by the last stop
                self.loop.call_soon(self.loop.stop)
                self.loop.run_forever()
                if not self._busy():
                    return True
        return False

    def unfinished_tasks(self):
        return [t for t in asyncio.all_tasks(self.loop) if not t.done()]

    def close(self):
        self.closing = True
        try:
            for t in self.unfinished_tasks():
                t.cancel()
            for _ in range(200):
                # cancelled coroutines may await again while they unwind (gates are open now)
                self.loop.call_soon(self.loop.stop)
                self.loop.run_forever()
                if not self.unfinished_tasks() and not self._busy():
                    break
            self.loop.run_until_complete(self.loop.shutdown_asyncgens())
        except Exception:  # noqa: BLE001
            pass
        finally:
            asyncio.set_event_loop(None)
            self.loop.close()


def next_schedule(taken, branching):
    """Depth-first successor of a schedule in the choice tree (None when the tree is exhausted)."""
    i = len(taken) - 1
    while i >= 0 and taken[i] >= branching[i] - 1:
        i -= 1
    if i < 0:
        return None
    return list(taken[:i]) + [taken[i] + 1]
