"""G1 - grammar-directed syntax trees over the whole GraphQL grammar, two renderings.

A tree is JSON-able (dicts/lists/strings).  ``to_tokens(tree)`` yields lexical tokens,
``layout(tokens, choices)`` writes them as text under a drawn layout, ``build(tree)`` constructs
the graphql.language.ast nodes the parser is expected to produce for that text.

Tokens: plain str for punctuators/names/numbers, ("S", value) for a quoted string (spelling is a
layout decision) and ("B", raw) for a block string given by its *raw* content.
"""

from __future__ import annotations

from vkit.ref.lex import block_string_value

# ------------------------------------------------------------------------------------------
# leaf pools

KEYWORDS = ["on", "true", "false", "null", "query", "mutation", "subscription", "fragment", "extend",
            "implements", "repeatable", "schema", "scalar", "type", "interface", "union", "enum",
            "input", "directive"]
PLAIN = ["a", "b", "c", "f", "x", "y", "id", "name", "T", "U", "Query", "_", "__typename", "A1",
         "a_b", "Int", "String", "e", "E1", "u"]
NAMES = PLAIN + KEYWORDS
NOT_ON = [n for n in NAMES if n != "on"]
ENUM_OK = [n for n in NAMES if n not in ("true", "false", "null")]

INTS = ["0", "-0", "1", "7", "-1", "42", "2147483647", "2147483648", "-2147483649", "9007199254740993",
        "123456789012345678901234567890"]
FLOATS = ["0.0", "-0.0", "1.5", "1e10", "1E-7", "-1.2e+3", "0e0", "1.0E+2", "3.14159", "1e400", "0.1e1"]

CHARS = ["a", "b", " ", " ", "\t", "\n", "\r", '"', "\\", "/", "\x0b", "\x0c", "\x1c", "\x1d", "\x1e",
         "\x85", "\u2028", "\u2029", "\x00", "\x07", "\x1f", "\x7f", "\x9f", "\u00e9", "\ufeff", "#", ",",
         "\u4e2d", "\U0001F600", "\U0010FFFF", "u", "n", "{", "}", "'"]
BLOCK_ATOMS = ["a", "b", " ", "  ", "\t", "\n", "\n", "\r\n", "\r", '"', '""', '\\"""', "\\", "\\n",
               "\u2028", "\x0b", "\x0c", "\x85", "\x1e", "\u00e9", "\U0001F600", "#", "    ",
               "\n  ", "\n\t", "x"]


def _mk_raw(atoms):
    """Join atoms into raw block string content that the grammar accepts (construction)."""
    s = "".join(atoms)
    out = []
    i = 0
    while i < len(s):
        if s.startswith('\\"""', i):
            out.append('\\"""')
            i += 4
        elif s.startswith('"""', i):
            out.append('" ')
            i += 1
        else:
            out.append(s[i])
            i += 1
    raw = "".join(out)
    if raw.endswith(('"', "\\")):
        raw += " "
    return raw


def raw_to_value(raw: str) -> str:
    return block_string_value(raw.replace('\\"""', '"""'))


LOCATIONS = ["QUERY", "MUTATION", "SUBSCRIPTION", "FIELD", "FRAGMENT_DEFINITION", "FRAGMENT_SPREAD",
             "INLINE_FRAGMENT", "VARIABLE_DEFINITION", "SCHEMA", "SCALAR", "OBJECT",
             "FIELD_DEFINITION", "ARGUMENT_DEFINITION", "INTERFACE", "UNION", "ENUM", "ENUM_VALUE",
             "INPUT_OBJECT", "INPUT_FIELD_DEFINITION", "DIRECTIVE_DEFINITION"]


def _fix_ext(t):
    """Extensions must add something (the grammar rejects empty ones): construct, not filter."""
    if not t.get("ext"):
        return t
    k = t["k"]
    some = {
        "schema": lambda: t["dirs"] or t["ops"],
        "scalar": lambda: t["dirs"],
        "type": lambda: t["ifaces"] or t["dirs"] or t["fields"],
        "interface": lambda: t["ifaces"] or t["dirs"] or t["fields"],
        "union": lambda: t["dirs"] or t["types"],
        "enumT": lambda: t["dirs"] or t["values"],
        "input": lambda: t["dirs"] or t["fields"],
        "directive": lambda: t["dirs"],
    }[k]()
    if not some:
        t = dict(t, dirs=[{"n": "x", "args": []}])
    return t



# ------------------------------------------------------------------------------------------
# choice-driven generators (c is a vkit.gen.choice.Choice)


def g_name(c):
    return c.choose(NAMES)


def g_string_value(c, long_ok=True):
    if long_ok and c.chance(10):
        # a long value: reaches the printer's line-length rules
        unit = c.choose(["a", " a", "ab ", "x\u00e9", " "])
        return c.choose(["", " ", "\t"]) + unit * c.count(24, 60) + c.choose(["", " ", "a"])
    return "".join(c.choose(CHARS) for _ in range(c.count(0, 8)))


def g_block_raw(c, long_ok=True):
    if long_ok and c.chance(10):
        unit = c.choose(["a", " a", "ab ", "x"])
        return _mk_raw([c.choose(["", " ", "\t", "\n", "  "]), unit * c.count(24, 60),
                        c.choose(["", "\n", " ", "\n  b"])])
    return _mk_raw([c.choose(BLOCK_ATOMS) for _ in range(c.count(0, 9))])


def g_str(c):
    if c.chance(110):
        return {"k": "str", "raw": g_block_raw(c)}
    return {"k": "str", "v": g_string_value(c)}


def g_desc(c):
    return g_str(c) if c.chance(80) else None


def g_value(c, const, depth=2):
    n = 9 if depth > 0 else 7
    k = c.pick(n if not const else n)  # same arity; variables replaced below
    if k == 0:
        return {"k": "int", "v": c.choose(INTS)}
    if k == 1:
        return {"k": "enum", "v": c.choose(ENUM_OK)}
    if k == 2:
        return g_str(c)
    if k == 3:
        return {"k": "bool", "v": bool(c.pick(2))}
    if k == 4:
        return {"k": "null"}
    if k == 5:
        return {"k": "float", "v": c.choose(FLOATS)}
    if k == 6:
        if const:
            return {"k": "int", "v": c.choose(INTS)}
        return {"k": "var", "n": g_name(c)}
    if k == 7:
        return {"k": "list", "vs": [g_value(c, const, depth - 1) for _ in range(c.count(0, 3))]}
    return {"k": "obj", "fs": [[g_name(c), g_value(c, const, depth - 1)] for _ in range(c.count(0, 3))]}


def g_type(c, depth=3):
    k = c.pick(4) if depth > 0 else 0
    if k in (0, 1):
        return {"k": "named", "n": g_name(c)}
    if k == 2:
        return {"k": "listT", "t": g_type(c, depth - 1)}
    t = g_type(c, depth - 1)
    return {"k": "nonnull", "t": t["t"] if t["k"] == "nonnull" else t}


def g_args(c, const, hi=3):
    if not c.chance(100):
        return []
    return [[g_name(c), g_value(c, const, 1)] for _ in range(c.count(1, hi))]


def g_dirs(c, const, hi=2, lo=0):
    n = c.count(lo, hi) if (lo or c.chance(90)) else 0
    return [{"n": g_name(c), "args": g_args(c, const, 2)} for _ in range(n)]


def g_vardefs(c, hi=2):
    if not c.chance(100):
        return []
    return [{"desc": g_desc(c), "n": g_name(c), "t": g_type(c),
             "default": g_value(c, True, 1) if c.chance(100) else None,
             "dirs": g_dirs(c, True, 1)} for _ in range(c.count(1, hi))]


def g_selections(c, frag_args, depth=3):
    out = []
    for _ in range(c.count(1, 3)):
        k = c.pick(6)
        if k <= 2 or (depth <= 0 and k == 5):
            out.append({"k": "field", "alias": g_name(c) if c.chance(70) else None, "n": g_name(c),
                        "args": g_args(c, False), "dirs": g_dirs(c, False, 1),
                        "sel": g_selections(c, frag_args, depth - 1)
                        if depth > 0 and c.chance(90) else None})
        elif k in (3, 4):
            out.append({"k": "spread", "n": c.choose(NOT_ON),
                        "args": ([[g_name(c), g_value(c, False, 1)] for _ in range(c.count(1, 2))]
                                 if frag_args and c.chance(120) else None),
                        "dirs": g_dirs(c, False, 1)})
        else:
            out.append({"k": "inline", "on": g_name(c) if c.chance(170) else None,
                        "dirs": g_dirs(c, False, 1), "sel": g_selections(c, frag_args, depth - 1)})
    return out


def g_operation(c, frag_args):
    return {"k": "op", "short": False, "desc": g_desc(c),
            "op": c.choose(["query", "mutation", "subscription"]),
            "n": g_name(c) if c.chance(150) else None, "vars": g_vardefs(c),
            "dirs": g_dirs(c, False, 1), "sel": g_selections(c, frag_args)}


def g_shorthand(c, frag_args):
    return {"k": "op", "short": True, "sel": g_selections(c, frag_args)}


def g_fragment(c, frag_args):
    return {"k": "frag", "desc": g_desc(c), "n": c.choose(NOT_ON),
            "vars": g_vardefs(c) if frag_args else [], "on": g_name(c),
            "dirs": g_dirs(c, False, 1), "sel": g_selections(c, frag_args)}


def g_ivd(c):
    return {"desc": g_desc(c), "n": g_name(c), "t": g_type(c),
            "default": g_value(c, True, 1) if c.chance(100) else None, "dirs": g_dirs(c, True, 1)}


def g_field_def(c):
    return {"desc": g_desc(c), "n": g_name(c),
            "args": [g_ivd(c) for _ in range(c.count(1, 2))] if c.chance(90) else [],
            "t": g_type(c), "dirs": g_dirs(c, True, 1)}


def _opt_list(c, fn, hi=3, p=190):
    return [fn(c) for _ in range(c.count(1, hi))] if c.chance(p) else None


def g_typedef(c, dir_on_dir, ext):
    kinds = ["type", "interface", "schema", "scalar", "union", "enumT", "input"]
    if not ext or dir_on_dir:
        kinds.append("directive")
    k = c.choose(kinds)
    desc = None if ext else g_desc(c)
    ops = lambda: [[c.choose(["query", "mutation", "subscription"]), g_name(c)]  # noqa: E731
                   for _ in range(c.count(1, 3))]
    if k == "schema":
        t = {"k": k, "ext": ext, "desc": desc, "dirs": g_dirs(c, True, 1),
             "ops": (ops() if c.chance(190) else None) if ext else ops()}
    elif k == "scalar":
        t = {"k": k, "ext": ext, "desc": desc, "n": g_name(c), "dirs": g_dirs(c, True, 2)}
    elif k in ("type", "interface"):
        t = {"k": k, "ext": ext, "desc": desc, "n": g_name(c),
             "ifaces": _opt_list(c, g_name, 3, 110), "lead": bool(c.pick(2)),
             "dirs": g_dirs(c, True, 1), "fields": _opt_list(c, g_field_def)}
    elif k == "union":
        t = {"k": k, "ext": ext, "desc": desc, "n": g_name(c), "dirs": g_dirs(c, True, 1),
             "types": _opt_list(c, g_name), "lead": bool(c.pick(2))}
    elif k == "enumT":
        t = {"k": k, "ext": ext, "desc": desc, "n": g_name(c), "dirs": g_dirs(c, True, 1),
             "values": _opt_list(c, lambda c: {"desc": g_desc(c), "n": c.choose(ENUM_OK),
                                               "dirs": g_dirs(c, True, 1)})}
    elif k == "input":
        t = {"k": k, "ext": ext, "desc": desc, "n": g_name(c), "dirs": g_dirs(c, True, 1),
             "fields": _opt_list(c, g_ivd)}
    elif ext:
        t = {"k": "directive", "ext": True, "n": g_name(c), "dirs": g_dirs(c, True, 2, 1)}
    else:
        t = {"k": "directive", "ext": False, "desc": desc, "n": g_name(c),
             "args": [g_ivd(c) for _ in range(c.count(1, 2))] if c.chance(100) else [],
             "dirs": g_dirs(c, True, 1) if dir_on_dir else [], "rep": bool(c.pick(2)),
             "locs": [c.choose(LOCATIONS) for _ in range(c.count(1, 3))], "lead": bool(c.pick(2))}
    return _fix_ext(t)


def g_document(c, mode=None, max_defs=3):
    """A whole document. mode: 'exec', 'sdl', 'mixed' (default: drawn)."""
    mode = mode or c.choose(["exec", "sdl", "mixed", "exec"])
    frag_args = bool(c.pick(2)) if mode != "sdl" else False
    dir_on_dir = bool(c.pick(2)) if mode != "exec" else False
    defs = []
    if mode in ("exec", "mixed") and c.chance(100):
        defs.append(g_shorthand(c, frag_args))
    n = c.count(0 if defs else 1, max_defs)
    for _ in range(n):
        if mode == "exec":
            which = c.choose(["op", "frag"])
        elif mode == "sdl":
            which = c.choose(["def", "ext", "def"])
        else:
            which = c.choose(["op", "def", "frag", "ext"])
        if which == "op":
            defs.append(g_operation(c, frag_args))
        elif which == "frag":
            defs.append(g_fragment(c, frag_args))
        else:
            defs.append(g_typedef(c, dir_on_dir, which == "ext"))
    return {"k": "doc", "defs": defs, "frag_args": frag_args, "dir_on_dir": dir_on_dir}


def g_coordinate(c):
    sh = c.choose(["type", "member", "arg", "dir", "dirarg"])
    t = {"k": "coord", "shape": sh, "n": g_name(c)}
    if sh in ("member", "arg"):
        t["m"] = g_name(c)
    if sh in ("arg", "dirarg"):
        t["a"] = g_name(c)
    return t


# ------------------------------------------------------------------------------------------
# rendering to tokens


def to_tokens(t) -> list:
    out: list = []
    _emit(t, out)
    return out


def _emit_str(s, out):
    out.append(("B", s["raw"]) if "raw" in s else ("S", s["v"]))


def _emit_value(v, out):
    k = v["k"]
    if k in ("int", "float", "enum"):
        out.append(v["v"])
    elif k == "str":
        _emit_str(v, out)
    elif k == "bool":
        out.append("true" if v["v"] else "false")
    elif k == "null":
        out.append("null")
    elif k == "var":
        out.extend(["$", v["n"]])
    elif k == "list":
        out.append("[")
        for x in v["vs"]:
            _emit_value(x, out)
        out.append("]")
    elif k == "obj":
        out.append("{")
        for n, x in v["fs"]:
            out.extend([n, ":"])
            _emit_value(x, out)
        out.append("}")
    else:
        raise ValueError(k)


def _emit_type(t, out):
    if t["k"] == "named":
        out.append(t["n"])
    elif t["k"] == "listT":
        out.append("[")
        _emit_type(t["t"], out)
        out.append("]")
    else:
        _emit_type(t["t"], out)
        out.append("!")


def _emit_args(args, out):
    if args:
        out.append("(")
        for n, v in args:
            out.extend([n, ":"])
            _emit_value(v, out)
        out.append(")")


def _emit_dirs(dirs, out):
    for d in dirs or []:
        out.extend(["@", d["n"]])
        _emit_args(d["args"], out)


def _emit_desc(d, out):
    if d is not None:
        _emit_str(d, out)


def _emit_vardefs(vs, out):
    if vs:
        out.append("(")
        for v in vs:
            _emit_desc(v["desc"], out)
            out.extend(["$", v["n"], ":"])
            _emit_type(v["t"], out)
            if v["default"] is not None:
                out.append("=")
                _emit_value(v["default"], out)
            _emit_dirs(v["dirs"], out)
        out.append(")")


def _emit_sel(sel, out):
    out.append("{")
    for s in sel:
        if s["k"] == "field":
            if s["alias"] is not None:
                out.extend([s["alias"], ":"])
            out.append(s["n"])
            _emit_args(s["args"], out)
            _emit_dirs(s["dirs"], out)
            if s["sel"] is not None:
                _emit_sel(s["sel"], out)
        elif s["k"] == "spread":
            out.extend(["...", s["n"]])
            _emit_args(s["args"], out)
            _emit_dirs(s["dirs"], out)
        else:
            out.append("...")
            if s["on"] is not None:
                out.extend(["on", s["on"]])
            _emit_dirs(s["dirs"], out)
            _emit_sel(s["sel"], out)
    out.append("}")


def _emit_ivd(v, out):
    _emit_desc(v["desc"], out)
    out.extend([v["n"], ":"])
    _emit_type(v["t"], out)
    if v["default"] is not None:
        out.append("=")
        _emit_value(v["default"], out)
    _emit_dirs(v["dirs"], out)


def _emit_fields(fields, out):
    if fields is not None:
        out.append("{")
        for f in fields:
            _emit_desc(f["desc"], out)
            out.append(f["n"])
            if f["args"]:
                out.append("(")
                for a in f["args"]:
                    _emit_ivd(a, out)
                out.append(")")
            out.append(":")
            _emit_type(f["t"], out)
            _emit_dirs(f["dirs"], out)
        out.append("}")


def _emit(t, out):
    k = t["k"]
    if k == "doc":
        for d in t["defs"]:
            _emit(d, out)
    elif k == "op":
        if t["short"]:
            _emit_sel(t["sel"], out)
            return
        _emit_desc(t["desc"], out)
        out.append(t["op"])
        if t["n"] is not None:
            out.append(t["n"])
        _emit_vardefs(t["vars"], out)
        _emit_dirs(t["dirs"], out)
        _emit_sel(t["sel"], out)
    elif k == "frag":
        _emit_desc(t["desc"], out)
        out.extend(["fragment", t["n"]])
        _emit_vardefs(t["vars"], out)
        out.extend(["on", t["on"]])
        _emit_dirs(t["dirs"], out)
        _emit_sel(t["sel"], out)
    elif k == "coord":
        sh = t["shape"]
        if sh in ("dir", "dirarg"):
            out.append("@")
        out.append(t["n"])
        if sh in ("member", "arg"):
            out.extend([".", t["m"]])
        if sh in ("arg", "dirarg"):
            out.extend(["(", t["a"], ":", ")"])
    elif k in ("int", "float", "enum", "str", "bool", "null", "var", "list", "obj"):
        _emit_value(t, out)
    elif k in ("named", "listT", "nonnull"):
        _emit_type(t, out)
    else:
        _emit_typedef(t, out)


def _emit_typedef(t, out):
    k = t["k"]
    if t["ext"]:
        out.append("extend")
    else:
        _emit_desc(t["desc"], out)
    if k == "schema":
        out.append("schema")
        _emit_dirs(t["dirs"], out)
        if t["ops"] is not None:
            out.append("{")
            for op, n in t["ops"]:
                out.extend([op, ":", n])
            out.append("}")
    elif k == "scalar":
        out.extend(["scalar", t["n"]])
        _emit_dirs(t["dirs"], out)
    elif k in ("type", "interface"):
        out.extend([k, t["n"]])
        if t["ifaces"] is not None:
            out.append("implements")
            if t["lead"]:
                out.append("&")
            for i, n in enumerate(t["ifaces"]):
                if i:
                    out.append("&")
                out.append(n)
        _emit_dirs(t["dirs"], out)
        _emit_fields(t["fields"], out)
    elif k == "union":
        out.extend(["union", t["n"]])
        _emit_dirs(t["dirs"], out)
        if t["types"] is not None:
            out.append("=")
            if t["lead"]:
                out.append("|")
            for i, n in enumerate(t["types"]):
                if i:
                    out.append("|")
                out.append(n)
    elif k == "enumT":
        out.extend(["enum", t["n"]])
        _emit_dirs(t["dirs"], out)
        if t["values"] is not None:
            out.append("{")
            for v in t["values"]:
                _emit_desc(v["desc"], out)
                out.append(v["n"])
                _emit_dirs(v["dirs"], out)
            out.append("}")
    elif k == "input":
        out.extend(["input", t["n"]])
        _emit_dirs(t["dirs"], out)
        if t["fields"] is not None:
            out.append("{")
            for f in t["fields"]:
                _emit_ivd(f, out)
            out.append("}")
    elif k == "directive":
        out.extend(["directive", "@", t["n"]])
        if t["ext"]:
            _emit_dirs(t["dirs"], out)
            return
        if t["args"]:
            out.append("(")
            for a in t["args"]:
                _emit_ivd(a, out)
            out.append(")")
        _emit_dirs(t["dirs"], out)
        if t["rep"]:
            out.append("repeatable")
        out.append("on")
        if t["lead"]:
            out.append("|")
        for i, n in enumerate(t["locs"]):
            if i:
                out.append("|")
            out.append(n)
    else:
        raise ValueError(k)


# ------------------------------------------------------------------------------------------
# layout: tokens -> text

IGNORED = ["", " ", "  ", "\t", ",", "\n", "\r", "\r\n", "\ufeff", "#c\n", "# \u2028x\r", " , ",
           "\n\n  ", "#\n", ",,", " \t ", "#\"\"\"\r\n", "\n    ", "# \u00e9\U0001F600\n"]
SEPS = [s for s in IGNORED if s]
_SHORT = {'"': '\\"', "\\": "\\\\", "\b": "\\b", "\f": "\\f", "\n": "\\n", "\r": "\\r", "\t": "\\t",
          "/": "\\/"}


def tok_class(t) -> str:
    if isinstance(t, (tuple, list)):
        return "str"
    c = t[0]
    if c.isalpha() or c == "_":
        return "name"
    if c.isdigit() or c == "-":
        return "num"
    return "punct"


def needs_sep(a, b) -> bool:
    ca, cb = tok_class(a), tok_class(b)
    if ca in ("name", "num") and cb in ("name", "num"):
        return True
    if ca == "num" and b in ("...", "."):
        return True
    return ca == "str" and cb == "str"


def spell_string(value: str, pick) -> str:
    out = ['"']
    for ch in value:
        o = ord(ch)
        opts = []
        if ch not in '"\\\n\r':
            opts.append(ch)
        if ch in _SHORT:
            opts.append(_SHORT[ch])
        if o < 0x10000:
            opts.append(f"\\u{o:04x}")
            opts.append(f"\\u{o:04X}")
        else:
            hi, lo = 0xD800 + ((o - 0x10000) >> 10), 0xDC00 + ((o - 0x10000) & 0x3FF)
            opts.append(f"\\u{hi:04X}\\u{lo:04x}")
        opts.append("\\u{%x}" % o)
        opts.append("\\u{%06X}" % o)
        w = pick()
        # bias to the raw form: two thirds of the picks
        out.append(opts[0] if w % 3 else opts[(w // 3) % len(opts)])
    out.append('"')
    return "".join(out)


def layout(tokens, choices, coordinate=False, minimal=False) -> str:
    """Write tokens under the layout given by a list of ints (cycled)."""
    n = max(1, len(choices))
    state = {"i": 0}

    def pick():
        v = choices[state["i"] % n] if choices else 0
        state["i"] += 1
        return v

    parts = []
    prev = None
    for t in tokens:
        if not coordinate:
            if prev is None:
                parts.append("" if minimal else IGNORED[pick() % len(IGNORED)])
            elif needs_sep(prev, t):
                parts.append(" " if minimal else SEPS[pick() % len(SEPS)])
            else:
                parts.append("" if minimal else IGNORED[pick() % len(IGNORED)])
        if isinstance(t, (tuple, list)):
            if t[0] == "S":
                parts.append(spell_string(t[1], (lambda: 1) if minimal else pick))
            else:
                parts.append('"""' + t[1] + '"""')
        else:
            parts.append(t)
        prev = t
    if not coordinate and not minimal:
        tail = IGNORED[pick() % len(IGNORED)]
        parts.append(tail)
    return "".join(parts)


# ------------------------------------------------------------------------------------------
# programmatic construction of the AST the parser must produce


def build(t, *, frag_args=False, dir_on_dir=False):
    from graphql.language import ast as A

    OT = A.OperationType

    def nm(n):
        return A.NameNode(value=n)

    def sv(s):
        if s is None:
            return None
        if "raw" in s:
            return A.StringValueNode(value=raw_to_value(s["raw"]), block=True)
        return A.StringValueNode(value=s["v"], block=False)

    def val(v):
        k = v["k"]
        if k == "int":
            return A.IntValueNode(value=v["v"])
        if k == "float":
            return A.FloatValueNode(value=v["v"])
        if k == "str":
            return sv(v)
        if k == "bool":
            return A.BooleanValueNode(value=v["v"])
        if k == "null":
            return A.NullValueNode()
        if k == "enum":
            return A.EnumValueNode(value=v["v"])
        if k == "var":
            return A.VariableNode(name=nm(v["n"]))
        if k == "list":
            return A.ListValueNode(values=tuple(val(x) for x in v["vs"]))
        if k == "obj":
            return A.ObjectValueNode(
                fields=tuple(A.ObjectFieldNode(name=nm(n), value=val(x)) for n, x in v["fs"]))
        raise ValueError(k)

    def typ(x):
        if x["k"] == "named":
            return A.NamedTypeNode(name=nm(x["n"]))
        if x["k"] == "listT":
            return A.ListTypeNode(type=typ(x["t"]))
        return A.NonNullTypeNode(type=typ(x["t"]))

    def args(a, cls=A.ArgumentNode):
        if not a:
            return None
        return tuple(cls(name=nm(n), value=val(v)) for n, v in a)

    def dirs(ds):
        if not ds:
            return None
        return tuple(A.DirectiveNode(name=nm(d["n"]), arguments=args(d["args"])) for d in ds)

    def vardefs(vs):
        if not vs:
            return None
        return tuple(A.VariableDefinitionNode(
            description=sv(v["desc"]), variable=A.VariableNode(name=nm(v["n"])), type=typ(v["t"]),
            default_value=val(v["default"]) if v["default"] is not None else None,
            directives=dirs(v["dirs"])) for v in vs)

    def sel(ss):
        out = []
        for s in ss:
            if s["k"] == "field":
                out.append(A.FieldNode(
                    alias=nm(s["alias"]) if s["alias"] is not None else None, name=nm(s["n"]),
                    arguments=args(s["args"]), directives=dirs(s["dirs"]),
                    selection_set=sel(s["sel"]) if s["sel"] is not None else None))
            elif s["k"] == "spread":
                out.append(A.FragmentSpreadNode(
                    name=nm(s["n"]), arguments=args(s["args"], A.FragmentArgumentNode),
                    directives=dirs(s["dirs"])))
            else:
                out.append(A.InlineFragmentNode(
                    type_condition=A.NamedTypeNode(name=nm(s["on"])) if s["on"] is not None else None,
                    directives=dirs(s["dirs"]), selection_set=sel(s["sel"])))
        return A.SelectionSetNode(selections=tuple(out))

    def ivd(v):
        return A.InputValueDefinitionNode(
            description=sv(v["desc"]), name=nm(v["n"]), type=typ(v["t"]),
            default_value=val(v["default"]) if v["default"] is not None else None,
            directives=dirs(v["dirs"]))

    def fdefs(fs):
        if fs is None:
            return None
        return tuple(A.FieldDefinitionNode(
            description=sv(f["desc"]), name=nm(f["n"]),
            arguments=tuple(ivd(a) for a in f["args"]) if f["args"] else None,
            type=typ(f["t"]), directives=dirs(f["dirs"])) for f in fs)

    def named_list(ns):
        return None if ns is None else tuple(A.NamedTypeNode(name=nm(n)) for n in ns)

    def optypes(ops):
        return tuple(A.OperationTypeDefinitionNode(operation=OT(op), type=A.NamedTypeNode(name=nm(n)))
                     for op, n in ops)

    k = t["k"]
    if k == "doc":
        return A.DocumentNode(definitions=tuple(
            build(d, frag_args=t["frag_args"], dir_on_dir=t["dir_on_dir"]) for d in t["defs"]))
    if k == "op":
        if t["short"]:
            return A.OperationDefinitionNode(operation=OT.QUERY, selection_set=sel(t["sel"]))
        return A.OperationDefinitionNode(
            operation=OT(t["op"]), description=sv(t["desc"]),
            name=nm(t["n"]) if t["n"] is not None else None,
            variable_definitions=vardefs(t["vars"]), directives=dirs(t["dirs"]),
            selection_set=sel(t["sel"]))
    if k == "frag":
        return A.FragmentDefinitionNode(
            description=sv(t["desc"]), name=nm(t["n"]),
            variable_definitions=vardefs(t["vars"]) if frag_args else (),
            type_condition=A.NamedTypeNode(name=nm(t["on"])), directives=dirs(t["dirs"]),
            selection_set=sel(t["sel"]))
    if k == "coord":
        sh = t["shape"]
        if sh == "type":
            return A.TypeCoordinateNode(name=nm(t["n"]))
        if sh == "member":
            return A.MemberCoordinateNode(name=nm(t["n"]), member_name=nm(t["m"]))
        if sh == "arg":
            return A.ArgumentCoordinateNode(name=nm(t["n"]), field_name=nm(t["m"]),
                                            argument_name=nm(t["a"]))
        if sh == "dir":
            return A.DirectiveCoordinateNode(name=nm(t["n"]))
        return A.DirectiveArgumentCoordinateNode(name=nm(t["n"]), argument_name=nm(t["a"]))
    if k in ("int", "float", "enum", "str", "bool", "null", "var", "list", "obj"):
        return val(t)
    if k in ("named", "listT", "nonnull"):
        return typ(t)
    ext = t["ext"]
    desc = None if ext else sv(t["desc"])
    if k == "schema":
        if ext:
            return A.SchemaExtensionNode(directives=dirs(t["dirs"]),
                                         operation_types=optypes(t["ops"]) if t["ops"] else None)
        return A.SchemaDefinitionNode(description=desc, directives=dirs(t["dirs"]),
                                      operation_types=optypes(t["ops"]))
    if k == "scalar":
        if ext:
            return A.ScalarTypeExtensionNode(name=nm(t["n"]), directives=dirs(t["dirs"]))
        return A.ScalarTypeDefinitionNode(description=desc, name=nm(t["n"]), directives=dirs(t["dirs"]))
    if k in ("type", "interface"):
        cls = {("type", False): A.ObjectTypeDefinitionNode, ("type", True): A.ObjectTypeExtensionNode,
               ("interface", False): A.InterfaceTypeDefinitionNode,
               ("interface", True): A.InterfaceTypeExtensionNode}[(k, ext)]
        kw = dict(name=nm(t["n"]), interfaces=named_list(t["ifaces"]), directives=dirs(t["dirs"]),
                  fields=fdefs(t["fields"]))
        if not ext:
            kw["description"] = desc
        return cls(**kw)
    if k == "union":
        kw = dict(name=nm(t["n"]), directives=dirs(t["dirs"]), types=named_list(t["types"]))
        if ext:
            return A.UnionTypeExtensionNode(**kw)
        return A.UnionTypeDefinitionNode(description=desc, **kw)
    if k == "enumT":
        vals = None if t["values"] is None else tuple(
            A.EnumValueDefinitionNode(description=sv(v["desc"]), name=nm(v["n"]),
                                      directives=dirs(v["dirs"])) for v in t["values"])
        kw = dict(name=nm(t["n"]), directives=dirs(t["dirs"]), values=vals)
        if ext:
            return A.EnumTypeExtensionNode(**kw)
        return A.EnumTypeDefinitionNode(description=desc, **kw)
    if k == "input":
        fs = None if t["fields"] is None else tuple(ivd(f) for f in t["fields"])
        kw = dict(name=nm(t["n"]), directives=dirs(t["dirs"]), fields=fs)
        if ext:
            return A.InputObjectTypeExtensionNode(**kw)
        return A.InputObjectTypeDefinitionNode(description=desc, **kw)
    if k == "directive":
        if ext:
            return A.DirectiveExtensionNode(name=nm(t["n"]), directives=dirs(t["dirs"]))
        return A.DirectiveDefinitionNode(
            description=desc, name=nm(t["n"]),
            arguments=tuple(ivd(a) for a in t["args"]) if t["args"] else None,
            directives=dirs(t["dirs"]) if dir_on_dir else None, repeatable=t["rep"],
            locations=tuple(nm(n) for n in t["locs"]))
    raise ValueError(k)


# ------------------------------------------------------------------------------------------
# structural signature of an AST (loc ignored; None vs () distinguished)


def sig(node):
    import dataclasses

    from graphql.language.ast import Node

    if isinstance(node, Node):
        return (type(node).__name__.replace("Const", ""),) + tuple(
            (f.name, sig(getattr(node, f.name)))
            for f in dataclasses.fields(node) if f.name != "loc")
    if isinstance(node, (tuple, list)):
        return ("T",) + tuple(sig(x) for x in node)
    if hasattr(node, "value") and node.__class__.__name__ == "OperationType":
        return ("OT", node.value)
    return node


def sig_diff(a, b, path="") -> str | None:
    """First difference between two signatures (for messages)."""
    if a == b:
        return None
    if isinstance(a, tuple) and isinstance(b, tuple) and len(a) == len(b):
        for i, (x, y) in enumerate(zip(a, b)):
            d = sig_diff(x, y, f"{path}/{x[0] if isinstance(x, tuple) and x and isinstance(x[0], str) else i}")
            if d:
                return d
    return f"{path}: {str(a)[:160]!r} != {str(b)[:160]!r}"
