"""Choice source: decodes a byte string drawn by Hypothesis into structured choices.

All generators in vkit.gen are plain functions of a ``Choice``; the only Hypothesis strategy
involved is ``st.binary(min_size=K, max_size=K)`` (about 2000 cases/s/core instead of 3/s for deeply
nested ``st.builds`` trees).  Every random decision still comes from Hypothesis' data (seeded,
shrinkable: lowering bytes moves every decision toward its first = simplest alternative, and an
exhausted source yields zeros, so every generator terminates with a minimal structure).
"""

from __future__ import annotations

from hypothesis import strategies as st


class Choice:
    __slots__ = ("d", "i", "n")

    def __init__(self, data: bytes):
        self.d = data
        self.i = 0
        self.n = len(data)

    def byte(self) -> int:
        if self.i < self.n:
            b = self.d[self.i]
            self.i += 1
            return b
        return 0

    def pick(self, n: int) -> int:
        """Uniform-ish integer in [0, n); 0 when the data is exhausted."""
        if n <= 1:
            return 0
        if n <= 256:
            return self.byte() % n
        return ((self.byte() << 8) | self.byte()) % n

    def choose(self, seq):
        return seq[self.pick(len(seq))]

    def chance(self, p256: int) -> bool:
        """True with probability p256/256; False when exhausted."""
        return self.byte() > 255 - p256

    def count(self, lo: int, hi: int) -> int:
        """Integer in [lo, hi], biased to the low end (min of two draws)."""
        if hi <= lo:
            return lo
        b = self.byte()
        span = hi - lo + 1
        return lo + min(b % span, (b // span) % span if span * span <= 256 else b % span)

    def ints(self, k: int, hi: int = 256) -> list[int]:
        return [self.pick(hi) for _ in range(k)]

    def exhausted(self) -> bool:
        return self.i >= self.n


def from_bytes(fn, size: int = 384):
    """Strategy: fixed-size byte string decoded by ``fn(Choice) -> JSON-able case``."""
    return st.binary(min_size=size, max_size=size).map(lambda b: fn(Choice(b)))
