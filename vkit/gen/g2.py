"""G2 - type-directed generator of *schema models* (plain dicts), valid by construction.

model = {
  "scalars":    [{"name", "desc", "url"}],
  "enums":      [{"name", "desc", "values": [{"name", "desc", "dep"}]}],
  "inputs":     [{"name", "desc", "oneof", "fields": [inputvalue]}],
  "interfaces": [{"name", "desc", "interfaces": [names], "fields": [field]}],
  "objects":    [{"name", "desc", "interfaces": [names], "fields": [field]}],
  "unions":     [{"name", "desc", "types": [names]}],
  "directives": [{"name", "desc", "args": [inputvalue], "repeatable", "locations": [names]}],
  "query": name, "mutation": name|None, "subscription": name|None,
}
field      = {"name", "type", "args": [inputvalue], "desc", "dep"}
inputvalue = {"name", "type", "default": ["v", value] | None, "desc", "dep"}
type       = "Name" | ["list", type] | ["nn", type]
value      = JSON-like external value; enum values are their names (str)

Renderers: ``to_sdl(model)`` (text) and ``build(model)`` (programmatic GraphQLSchema).
"""

from __future__ import annotations

BUILTIN = ["Int", "Float", "String", "Boolean", "ID"]
FIELD_NAMES = ["a", "b", "c", "d", "id", "name", "f", "g", "on", "type", "query", "x1", "a_b",
               "input", "true", "null", "fragment", "z"]
ARG_NAMES = ["x", "y", "z", "if", "first", "on", "input", "a"]
ENUM_NAMES = ["A", "B", "C", "RED", "on", "type", "e1", "_x", "query"]
DESC_CHARS = ["a", "b", " ", " ", "\n", '"', "\\", "\t", "\u2028", "\x0c", "\x85", "\u00e9", "\U0001f600",
              '"""', "#", "\r", "x", "\x0b", "  ", "\n\n", "{", "'"]
EXEC_LOCS = ["QUERY", "MUTATION", "SUBSCRIPTION", "FIELD", "FRAGMENT_DEFINITION", "FRAGMENT_SPREAD",
             "INLINE_FRAGMENT", "VARIABLE_DEFINITION", "FRAGMENT_VARIABLE_DEFINITION"]
TS_LOCS = ["SCHEMA", "SCALAR", "OBJECT", "FIELD_DEFINITION", "ARGUMENT_DEFINITION", "INTERFACE",
           "UNION", "ENUM", "ENUM_VALUE", "INPUT_OBJECT", "INPUT_FIELD_DEFINITION", "DIRECTIVE_DEFINITION"]


def g_desc(c, p=60):
    if not c.chance(p):
        return None
    if c.chance(25):
        return c.choose(["", " ", "\n", " lead", "trail ", '"', "\\", "a" * 75, " " + "ab " * 30])
    return "".join(c.choose(DESC_CHARS) for _ in range(c.count(1, 6)))


def g_dep(c, p=30):
    if not c.chance(p):
        return None
    return c.choose(["No longer supported", "use b", "", "why \"not\"", "multi\nline", " x", "\u00e9", "",
                     "No longer supported"])


def named(t):
    while not isinstance(t, str):
        t = t[1]
    return t


def is_nn(t):
    return not isinstance(t, str) and t[0] == "nn"


def nullable(t):
    return t[1] if is_nn(t) else t


def wrap(c, base, max_wrappers=4, p_nn=90):
    t = base
    n = 0
    while n < max_wrappers and c.chance(60):
        if c.chance(p_nn) and not is_nn(t):
            t = ["nn", t]
        else:
            t = ["list", t]
        n += 1
    if n < max_wrappers and c.chance(p_nn) and not is_nn(t):
        t = ["nn", t]
    return t


def type_str(t):
    if isinstance(t, str):
        return t
    if t[0] == "nn":
        return type_str(t[1]) + "!"
    return "[" + type_str(t[1]) + "]"


class Model(dict):
    """dict with lookup helpers (still JSON-able)."""

    def kind(self, name):
        if name in BUILTIN:
            return "scalar"
        for k, key in (("scalar", "scalars"), ("enum", "enums"), ("input", "inputs"),
                       ("interface", "interfaces"), ("object", "objects"), ("union", "unions")):
            for x in self[key]:
                if x["name"] == name:
                    return k
        return None

    def get(self, name, default=None):  # type: ignore[override]
        for key in ("scalars", "enums", "inputs", "interfaces", "objects", "unions"):
            for x in self[key]:
                if x["name"] == name:
                    return x
        return default

    def possible(self, name):
        k = self.kind(name)
        if k == "object":
            return [name]
        if k == "union":
            return list(self.get(name)["types"])
        if k == "interface":
            return [o["name"] for o in self["objects"] if name in o["interfaces"]]
        return []

    def type_names(self):
        return [x["name"] for key in ("scalars", "enums", "inputs", "interfaces", "objects", "unions")
                for x in self[key]]


def as_model(d):
    return d if isinstance(d, Model) else Model(d)


# ------------------------------------------------------------------------------------------
# conforming values (G5 core) - by construction


def g_value(c, m, t, depth=2, allow_null=True):
    """A value that conforms to input type t of model m (external JSON-like form)."""
    if is_nn(t):
        return g_value(c, m, t[1], depth, allow_null=False)
    if allow_null and c.chance(40):
        return None
    if not isinstance(t, str):  # list
        if c.chance(40) and depth > 0:
            # single item coerced to a list of one is legal for values but we keep lists explicit
            pass
        n = c.count(0, 2) if depth > 0 else 0
        return [g_value(c, m, t[1], depth - 1) for _ in range(n)]
    k = m.kind(t)
    if t == "Int":
        return c.choose([0, 1, -1, 7, 2147483647, -2147483648, 42])
    if t == "Float":
        return c.choose([0.0, 1.5, -2.25, 1e10, 3, -0.0, 1e-7])
    if t == "String":
        return c.choose(["", "s", "a b", "\u00e9", 'q"q', "line\nbreak", "\\", " x "])
    if t == "Boolean":
        return bool(c.pick(2))
    if t == "ID":
        return c.choose(["1", "abc", "", "0"])
    if k == "scalar":
        return c.choose([1, "s", True, 1.5, [1, "a"], {"k": "v"}, {"a": [1, {"b": None}]}])
    if k == "enum":
        return c.choose([v["name"] for v in m.get(t)["values"]])
    if k == "input":
        io = m.get(t)
        fields = io["fields"]
        if not fields:
            return {}  # under construction (self reference); the caller replaces this default
        if io["oneof"]:
            f = c.choose(fields)
            return {f["name"]: g_value(c, m, ["nn", nullable(f["type"])], depth - 1)}
        out = {}
        for f in fields:
            required = is_nn(f["type"]) and f["default"] is None
            if depth <= 0 and not required:
                continue
            if required or c.chance(140):
                # recursive references are nullable or lists by construction -> depth bounds it
                out[f["name"]] = g_value(c, m, f["type"], depth - 1)
        return out
    raise ValueError(t)


# ------------------------------------------------------------------------------------------
# model generator


def g_input_type(c, m, upto_input=None, max_wrappers=3):
    """An input type reference over the model built so far."""
    pool = BUILTIN + [s["name"] for s in m["scalars"]] + [e["name"] for e in m["enums"]]
    ins = [i["name"] for i in m["inputs"]][:upto_input]
    pool = pool + ins + ins + ins
    return wrap(c, c.choose(pool), max_wrappers)


def g_input_values(c, m, names, lo, hi, upto_input=None, allow_dep=True):
    out = []
    used = set()
    for _ in range(c.count(lo, hi)):
        n = c.choose(names)
        if n in used:
            continue
        used.add(n)
        t = g_input_type(c, m, upto_input)
        default = None
        if c.chance(90):
            default = ["v", g_value(c, m, t, 2)]
        dep = g_dep(c, 70) if allow_dep and (not is_nn(t) or default is not None) else None
        out.append({"name": n, "type": t, "default": default, "desc": g_desc(c, 40), "dep": dep})
    return out


def g_model(c, incremental=False):
    m = Model(scalars=[], enums=[], inputs=[], interfaces=[], objects=[], unions=[], directives=[],
              query="Query", mutation=None, subscription=None)
    for i in range(c.count(0, 2)):
        m["scalars"].append({"name": f"S{i}", "desc": g_desc(c),
                             "url": c.choose([None, "https://example.com/s", "x", "", " "])})
    for i in range(c.count(1, 3)):
        vals, used = [], set()
        for _ in range(c.count(1, 4)):
            n = c.choose(ENUM_NAMES)
            if n not in used:
                used.add(n)
                vals.append({"name": n, "desc": g_desc(c, 30), "dep": g_dep(c)})
        m["enums"].append({"name": f"E{i}", "desc": g_desc(c), "values": vals})
    n_inputs = c.count(0, 3)
    for i in range(n_inputs):
        oneof = c.chance(50)
        io = {"name": f"In{i}", "desc": g_desc(c), "oneof": oneof, "fields": []}
        m["inputs"].append(io)
        # fields may reference this and earlier input objects
        fields = g_input_values(c, m, FIELD_NAMES, 1, 3, upto_input=i + 1)
        for f in fields:
            base = named(f["type"])
            if oneof:
                f["type"] = nullable(f["type"])
                f["default"] = None
                if base == io["name"] and isinstance(f["type"], str):
                    f["type"] = ["list", f["type"]]  # a oneOf member must be satisfiable finitely
            elif base == io["name"]:
                # self reference: must be breakable -> nullable (or list) and no default cycle
                if is_nn(f["type"]) and not (isinstance(f["type"][1], list) and f["type"][1][0] == "list"):
                    f["type"] = nullable(f["type"])
                f["default"] = None if f["default"] is None else ["v", _no_self_default(f["type"])]
                if is_nn(f["type"]) and f["default"] is None:
                    f["dep"] = None
        if not fields:
            fields = [{"name": "a", "type": "Int", "default": None, "desc": None, "dep": None}]
        io["fields"] = fields
    # interfaces (chains and diamonds)
    n_if = c.count(0, 3)
    for i in range(n_if):
        parents = []
        for j in range(i):
            if c.chance(90):
                parents.append(f"I{j}")
        # transitive closure
        closure = []
        for p in parents:
            for q in [p] + as_model(m).get(p)["interfaces"]:
                if q not in closure:
                    closure.append(q)
        iface = {"name": f"I{i}", "desc": g_desc(c), "interfaces": closure, "fields": []}
        m["interfaces"].append(iface)
    n_obj = c.count(2, 6)
    obj_names = [f"O{i}" for i in range(n_obj)]
    root_q = c.choose(["Query", "Query", "RootQ", "Q"])
    obj_names[0] = root_q
    m["query"] = root_q
    if c.chance(90):
        m["mutation"] = c.choose(["Mutation", "M"])
        obj_names[1] = m["mutation"]
    if n_obj >= 3 and c.chance(60):
        m["subscription"] = c.choose(["Subscription", "Sub"])
        obj_names[2] = m["subscription"]
    if n_obj >= 4 and c.chance(40):
        # a non-root type that carries a default root name
        cand = [n for n in ("Mutation", "Subscription", "Query") if n not in obj_names]
        if cand:
            obj_names[3] = c.choose(cand)
    union_names = [f"U{i}" for i in range(c.count(0, 2))]
    out_pool = (BUILTIN + [s["name"] for s in m["scalars"]] + [e["name"] for e in m["enums"]]
                + obj_names + obj_names + [f"I{i}" for i in range(n_if)] + union_names)

    def g_field(name):
        return {"name": name, "type": wrap(c, c.choose(out_pool), 3),
                "args": g_input_values(c, m, ARG_NAMES, 1, 2) if c.chance(120) else [],
                "desc": g_desc(c, 40), "dep": g_dep(c, 25)}

    def g_fields(lo, hi, taken):
        out = []
        for _ in range(c.count(lo, hi)):
            n = c.choose(FIELD_NAMES)
            if n not in taken:
                taken.add(n)
                out.append(g_field(n))
        return out

    def implement(fld):
        """A field that validly implements interface field fld (covariant type, extra optional arg)."""
        f = {"name": fld["name"], "type": fld["type"], "args": [dict(a) for a in fld["args"]],
             "desc": g_desc(c, 30), "dep": fld["dep"] if fld["dep"] is not None else None}
        if c.chance(60) and not is_nn(f["type"]):
            f["type"] = ["nn", f["type"]]
        if c.chance(50):
            used = {a["name"] for a in f["args"]}
            extra = [a for a in g_input_values(c, m, ARG_NAMES, 1, 1) if a["name"] not in used]
            for a in extra:
                if is_nn(a["type"]) and a["default"] is None:
                    a["type"] = nullable(a["type"])
            f["args"] += extra
        for a in f["args"]:
            a["dep"] = None if (is_nn(a["type"]) and a["default"] is None) else a["dep"]
        return f

    import copy

    mm = as_model(m)
    canon = {}  # field name -> the one definition all interfaces share (narrowing happens in objects)
    for iface in m["interfaces"]:
        taken = set()
        fields = []
        for p in iface["interfaces"]:
            for fld in mm.get(p)["fields"]:
                if fld["name"] not in taken:
                    taken.add(fld["name"])
                    fields.append(copy.deepcopy(canon[fld["name"]]))
        for _ in range(c.count(0 if fields else 1, 2)):
            n = c.choose(FIELD_NAMES)
            if n in taken:
                continue
            taken.add(n)
            if n not in canon:
                canon[n] = g_field(n)
            fields.append(copy.deepcopy(canon[n]))
        if not fields:
            canon.setdefault("id", g_field("id"))
            fields = [copy.deepcopy(canon["id"])]
        iface["fields"] = fields
    for n in obj_names:
        impl = []
        for iface in m["interfaces"]:
            if c.chance(80):
                for qn in [iface["name"]] + iface["interfaces"]:
                    if qn not in impl:
                        impl.append(qn)
        taken = set()
        fields = []
        for p in impl:
            for fld in mm.get(p)["fields"]:
                if fld["name"] not in taken:
                    taken.add(fld["name"])
                    fields.append(implement(canon[fld["name"]]))
        if "id" not in taken:
            taken.add("id")
            fields.insert(0, {"name": "id", "type": c.choose(["ID", "Int", "String", ["nn", "ID"]]),
                              "args": [], "desc": None, "dep": None})
        fields += g_fields(0, 3, taken)
        m["objects"].append({"name": n, "desc": g_desc(c), "interfaces": impl, "fields": fields})
    # every interface gets at least one implementing object (a value of the interface type must exist)
    for iface in m["interfaces"]:
        if any(iface["name"] in o["interfaces"] for o in m["objects"]):
            continue
        o = m["objects"][-1]
        have = {f["name"] for f in o["fields"]}
        for qn in [iface["name"]] + iface["interfaces"]:
            if qn not in o["interfaces"]:
                o["interfaces"].append(qn)
                for fld in mm.get(qn)["fields"]:
                    if fld["name"] in have:
                        o["fields"] = [f for f in o["fields"] if f["name"] != fld["name"]]
                    have.add(fld["name"])
                    o["fields"].append(implement(canon[fld["name"]]))
    for un in union_names:
        members = []
        for _ in range(c.count(1, 3)):
            o = c.choose(obj_names)
            if o not in members:
                members.append(o)
        m["unions"].append({"name": un, "desc": g_desc(c), "types": members})
    for i in range(c.count(0, 3)):
        ex = c.chance(170)
        locs = []
        for _ in range(c.count(1, 3)):
            l = c.choose(EXEC_LOCS if ex else TS_LOCS)
            if l not in locs:
                locs.append(l)
        m["directives"].append({"name": f"d{i}", "desc": g_desc(c),
                                "args": g_input_values(c, m, ARG_NAMES, 0, 2) if c.chance(120) else [],
                                "repeatable": c.chance(70), "locations": locs})
    if incremental:
        m["incremental"] = True
    return m


def _no_self_default(t):
    if is_nn(t):
        return _no_self_default(t[1]) if not isinstance(t[1], str) else {}
    return None if isinstance(t, str) else []


# ------------------------------------------------------------------------------------------
# SDL rendering (own printer; descriptions quoted with escapes only)


def q(s):
    out = ['"']
    for ch in s:
        o = ord(ch)
        if ch == '"':
            out.append('\\"')
        elif ch == "\\":
            out.append("\\\\")
        elif o < 0x20 or o == 0x7F:
            out.append(f"\\u{o:04x}")
        else:
            out.append(ch)
    out.append('"')
    return "".join(out)


def literal(m, t, v):
    """SDL literal of external value v for input type t."""
    if v is None:
        return "null"
    if is_nn(t):
        return literal(m, t[1], v)
    if not isinstance(t, str):
        if isinstance(v, list):
            return "[" + ", ".join(literal(m, t[1], x) for x in v) + "]"
        return literal(m, t[1], v)
    k = m.kind(t)
    if k == "enum":
        return str(v)
    if k == "input":
        io = {f["name"]: f for f in m.get(t)["fields"]}
        return "{" + ", ".join(f"{n}: {literal(m, io[n]['type'], x)}" for n, x in v.items()) + "}"
    return untyped_literal(v)


def untyped_literal(v):
    if v is None:
        return "null"
    if isinstance(v, bool):
        return "true" if v else "false"
    if isinstance(v, int):
        return str(v)
    if isinstance(v, float):
        r = repr(v)
        return r if ("." in r or "e" in r or "E" in r) else r + ".0"
    if isinstance(v, str):
        return q(v)
    if isinstance(v, list):
        return "[" + ", ".join(untyped_literal(x) for x in v) + "]"
    if isinstance(v, dict):
        return "{" + ", ".join(f"{k}: {untyped_literal(x)}" for k, x in v.items()) + "}"
    raise TypeError(v)


def _d(desc, ind=""):
    return f"{ind}{q(desc)}\n" if desc is not None else ""


def _dep(dep):
    if dep is None:
        return ""
    return " @deprecated" if dep == "No longer supported" else f" @deprecated(reason: {q(dep)})"


def _iv(m, a, ind=""):
    s = f"{_d(a['desc'], ind)}{ind}{a['name']}: {type_str(a['type'])}"
    if a["default"] is not None:
        s += " = " + literal(m, a["type"], a["default"][1])
    return s + _dep(a["dep"])


def _args(m, args, ind):
    if not args:
        return ""
    if all(a["desc"] is None for a in args):
        return "(" + ", ".join(_iv(m, a) for a in args) + ")"
    return "(\n" + "\n".join(_iv(m, a, ind + "  ") for a in args) + "\n" + ind + ")"


def definitions(m):
    """[(name, sdl text)] for every definition of the model."""
    m = as_model(m)
    out = []
    roots = [("query", m["query"]), ("mutation", m["mutation"]), ("subscription", m["subscription"])]
    default_names = {"query": "Query", "mutation": "Mutation", "subscription": "Subscription"}
    names = m.type_names()
    need_schema = any((n is not None and n != default_names[op]) or
                      (n is None and default_names[op] in names) for op, n in roots)
    if need_schema or m.get("force_schema_block"):
        body = "".join(f"  {op}: {n}\n" for op, n in roots if n is not None)
        out.append(("schema", "schema {\n" + body + "}"))
    for d in m["directives"]:
        out.append(("@" + d["name"], f"{_d(d['desc'])}directive @{d['name']}{_args(m, d['args'], '')}"
                    f"{_dep(d.get('dep'))}{' repeatable' if d['repeatable'] else ''} on {' | '.join(d['locations'])}"))
    for s in m["scalars"]:
        url = f" @specifiedBy(url: {q(s['url'])})" if s["url"] is not None else ""
        out.append((s["name"], f"{_d(s['desc'])}scalar {s['name']}{url}"))
    def body(lines):
        return (" {\n" + "\n".join(lines) + "\n}") if lines else ""

    for e in m["enums"]:
        vals = [f"{_d(v['desc'], '  ')}  {v['name']}{_dep(v['dep'])}" for v in e["values"]]
        out.append((e["name"], f"{_d(e['desc'])}enum {e['name']}{body(vals)}"))
    for i in m["inputs"]:
        fs = [_iv(m, f, "  ") for f in i["fields"]]
        out.append((i["name"], f"{_d(i['desc'])}input {i['name']}{' @oneOf' if i['oneof'] else ''}"
                    f"{body(fs)}"))
    for kw, key in (("interface", "interfaces"), ("type", "objects")):
        for o in m[key]:
            impl = (" implements " + " & ".join(o["interfaces"])) if o["interfaces"] else ""
            fs = [f"{_d(f['desc'], '  ')}  {f['name']}{_args(m, f['args'], '  ')}: "
                  f"{type_str(f['type'])}{_dep(f['dep'])}" for f in o["fields"]]
            out.append((o["name"], f"{_d(o['desc'])}{kw} {o['name']}{impl}{body(fs)}"))
    for u in m["unions"]:
        members = (" = " + " | ".join(u["types"])) if u["types"] else ""
        out.append((u["name"], f"{_d(u['desc'])}union {u['name']}{members}"))
    return out


def to_sdl(m, order=None):
    defs = definitions(m)
    if order:
        defs = [defs[i % len(defs)] for i in _perm(len(defs), order)]
    return "\n\n".join(t for _n, t in defs) + "\n"


def _perm(n, ints):
    idx = list(range(n))
    out = []
    for k, x in enumerate(ints + [0] * n):
        if not idx:
            break
        out.append(idx.pop(x % len(idx)))
    return out + idx


# ------------------------------------------------------------------------------------------
# programmatic construction


def unpy(x):
    """Undo the ``py_`` out_names of input fields in a coerced value (deep)."""
    if isinstance(x, dict):
        return {(k[3:] if isinstance(k, str) and k.startswith("py_") else k): unpy(v) for k, v in x.items()}
    if isinstance(x, list):
        return [unpy(v) for v in x]
    return x


def build(m, resolvers=None, type_resolver=None, use_out_names=False, is_type_of=None, input_out_names=False,
          incremental=False):
    """GraphQLSchema assembled from type objects (thunks for fields)."""
    from graphql import (GraphQLArgument, GraphQLBoolean, GraphQLDirective, GraphQLEnumType,
                         GraphQLEnumValue, GraphQLField, GraphQLFloat, GraphQLID, GraphQLInputField,
                         GraphQLInputObjectType, GraphQLInt, GraphQLInterfaceType, GraphQLList,
                         GraphQLNonNull, GraphQLObjectType, GraphQLScalarType, GraphQLSchema,
                         GraphQLString, GraphQLUnionType, specified_directives)
    from graphql.type import GraphQLDefaultInput

    m = as_model(m)
    types = {"Int": GraphQLInt, "Float": GraphQLFloat, "String": GraphQLString,
             "Boolean": GraphQLBoolean, "ID": GraphQLID}

    def T(t):
        if isinstance(t, str):
            return types[t]
        if t[0] == "nn":
            return GraphQLNonNull(T(t[1]))
        return GraphQLList(T(t[1]))

    def default_kw(a):
        if a["default"] is None:
            return {}
        return {"default": GraphQLDefaultInput(value=a["default"][1])}

    def mk_args(args):
        return {a["name"]: GraphQLArgument(T(a["type"]), description=a["desc"],
                                           deprecation_reason=a["dep"],
                                           out_name=("py_" + a["name"]) if use_out_names else None,
                                           **default_kw(a)) for a in args}

    for s in m["scalars"]:
        types[s["name"]] = GraphQLScalarType(s["name"], description=s["desc"],
                                             specified_by_url=s["url"])
    for e in m["enums"]:
        types[e["name"]] = GraphQLEnumType(
            e["name"], {v["name"]: GraphQLEnumValue(v["name"], description=v["desc"],
                                                    deprecation_reason=v["dep"]) for v in e["values"]},
            description=e["desc"])
    for i in m["inputs"]:
        types[i["name"]] = GraphQLInputObjectType(
            i["name"], (lambda i=i: {f["name"]: GraphQLInputField(
                T(f["type"]), description=f["desc"], deprecation_reason=f["dep"],
                out_name=("py_" + f["name"]) if input_out_names else None, **default_kw(f))
                for f in i["fields"]}), description=i["desc"], is_one_of=i["oneof"])

    def mk_fields(o):
        def thunk():
            out = {}
            for f in o["fields"]:
                res = resolvers(o["name"], f["name"]) if resolvers else None
                out[f["name"]] = GraphQLField(T(f["type"]), args=mk_args(f["args"]), resolve=res,
                                              description=f["desc"], deprecation_reason=f["dep"])
            return out
        return thunk

    for o in m["interfaces"]:
        types[o["name"]] = GraphQLInterfaceType(
            o["name"], mk_fields(o), interfaces=(lambda o=o: [types[n] for n in o["interfaces"]]),
            description=o["desc"], resolve_type=type_resolver)
    for o in m["objects"]:
        types[o["name"]] = GraphQLObjectType(
            o["name"], mk_fields(o), interfaces=(lambda o=o: [types[n] for n in o["interfaces"]]),
            description=o["desc"], is_type_of=is_type_of(o["name"]) if is_type_of else None)
    for u in m["unions"]:
        types[u["name"]] = GraphQLUnionType(u["name"], (lambda u=u: [types[n] for n in u["types"]]),
                                            description=u["desc"], resolve_type=type_resolver)
    extra = []
    if incremental:
        from graphql.type.directives import (GraphQLDeferDirective, GraphQLDisableErrorPropagationDirective,
                                             GraphQLStreamDirective)

        extra = [GraphQLDeferDirective, GraphQLStreamDirective, GraphQLDisableErrorPropagationDirective]
    directives = list(specified_directives) + extra + [
        GraphQLDirective(d["name"], d["locations"], args=mk_args(d["args"]),
                         is_repeatable=d["repeatable"], description=d["desc"],
                         deprecation_reason=d.get("dep"))
        for d in m["directives"]]
    return GraphQLSchema(
        query=types[m["query"]],
        mutation=types[m["mutation"]] if m["mutation"] else None,
        subscription=types[m["subscription"]] if m["subscription"] else None,
        types=[types[n] for n in m.type_names()], directives=directives)
