"""G3 - executable documents generated type-directed against a schema model (G2).

The document is a G1 tree (so it renders through g1.to_tokens/layout and builds through g1.build) plus
side information: declared variables with their model types and defaults, fragment definitions.

Validity by construction: fields exist on their parent types, required arguments are provided with
conforming literals or type-compatible variables, fragments apply to a type that can overlap, and a
registry of response names per response path keeps every merge legal (same field, same arguments, same
response shape).  validate() is still used as a safety net by the checks; its rejections are counted.
"""

from __future__ import annotations

from vkit.gen import g2, g5
from vkit.gen.g2 import as_model, is_nn, named, nullable, type_str


class DocGen:
    def __init__(self, c, m, incremental=False, allow_faulty_vars=False, collide=0):
        self.collide = collide  # probability (of 256) of picking a response key without the registry
        self.c = c
        self.m = as_model(m)
        self.vars = {}       # name -> {"t": type, "default": lit | None}
        self.frags = []      # G1 fragment definition trees
        self.frag_info = {}  # name -> {"on": type, "entries": [(relpath, key, sig)]}
        self.registry = {}   # response path (tuple) -> {key: sig}
        self.counter = 0
        self.incremental = incremental
        self.labels = 0
        self.features = set()

    # ---- helpers ---------------------------------------------------------------------------
    def fresh(self, prefix):
        self.counter += 1
        return f"{prefix}{self.counter}"

    def composite(self, tname):
        return self.m.kind(tname) in ("object", "interface", "union")

    def fields_of(self, tname):
        k = self.m.kind(tname)
        if k in ("object", "interface"):
            return self.m.get(tname)["fields"]
        return []

    def overlapping_types(self, tname):
        """Type names a fragment inside a selection on tname may be conditioned on."""
        m = self.m
        poss = set(m.possible(tname))
        out = [tname]
        for key in ("objects", "interfaces", "unions"):
            for t in m[key]:
                if t["name"] != tname and poss & set(m.possible(t["name"])):
                    out.append(t["name"])
        return out

    # ---- registry of response names (merge legality) -------------------------------------------
    def try_register(self, path, key, sig, commit=True):
        scope = self.registry.setdefault(path, {})
        old = scope.get(key)
        if old is None:
            if commit:
                scope[key] = sig
            return True
        # same field name, same arguments, same type: always mergeable
        return old == sig

    # ---- values --------------------------------------------------------------------------------
    def g_arg_value(self, t, required):
        c, m = self.c, self.m
        k = c.pick(10)
        if k <= 2:
            return self.g_variable(t)
        v = g2.g_value(c, m, t, 2)
        lit = g5.value_to_lit(m, t, v)
        if c.chance(70):
            lit2 = g5.unwrap_singletons(c, m, t, lit)
            if lit2 != lit:
                self.features.add("bare-item-for-list")
                lit = lit2
        if k <= 4 and lit["k"] in ("list", "obj"):
            lit = self.insert_vars(t, lit)
        return lit

    def insert_vars(self, t, lit):
        vars_out = {}
        new = g5.insert_variables(self.c, self.m, t, lit, vars_out, 50)
        # rename and declare
        ren = {}
        for name, vt in vars_out.items():
            n = self.fresh("v")
            ren[name] = n
            self.vars[n] = {"t": vt, "default": None}
        self.features.add("variable")
        return _rename_vars(new, ren)

    def g_variable(self, t, corner=True):
        """A variable usable at a position of type t (declares it)."""
        c, m = self.c, self.m
        # reuse a declared variable of exactly this type sometimes
        same = [n for n, d in self.vars.items() if d["t"] == t and (corner or is_nn(d["t"]))]
        if same and c.chance(100):
            self.features.add("variable")
            return {"k": "var", "n": c.choose(same)}
        n = self.fresh("v")
        k = c.pick(6)
        vt, default = t, None
        if k == 0 and not is_nn(t):
            vt = ["nn", t]
        elif k == 1 and is_nn(t) and corner:
            # the corner the specification defers to run time: nullable variable with a default
            # flowing into a non-null position
            vt = t[1]
            default = g5.value_to_lit(m, t, g2.g_value(c, m, t, 2))
            self.features.add("nullable-var-with-default-into-non-null")
        elif k == 2:
            default = g5.value_to_lit(m, vt, g2.g_value(c, m, vt, 2))
            self.features.add("variable-default")
        self.vars[n] = {"t": vt, "default": default}
        self.features.add("variable")
        return {"k": "var", "n": n}

    def g_directives(self):
        c = self.c
        if not c.chance(45):
            return []
        name = c.choose(["skip", "include"])
        if c.chance(128):
            val = {"k": "bool", "v": bool(c.pick(2))}
        else:
            # the specification does not say what CollectFields does with a null `if`: never generated
            val = self.g_variable(["nn", "Boolean"], corner=False)
        self.features.add("skip-include")
        return [{"n": name, "args": [["if", val]]}]

    # ---- selections ------------------------------------------------------------------------------
    def g_selset(self, tname, path, depth):
        c = self.c
        out = []
        n = c.count(1, 4)
        for _ in range(n):
            k = c.pick(10)
            sel = None
            if k <= 5 or not self.composite(tname):
                sel = self.g_field(tname, path, depth)
            elif k == 6:
                sel = self.g_typename(tname, path)
            elif k == 7:
                sel = self.g_inline(tname, path, depth)
            else:
                sel = self.g_spread(tname, path, depth)
            if sel is not None:
                out.append(sel)
        if not out:
            out.append(self.g_typename(tname, path) or {"k": "field", "alias": self.fresh("t"),
                                                        "n": "__typename", "args": [], "dirs": [],
                                                        "sel": None})
        return out

    def structured(self, t):
        tt = nullable(t) if is_nn(t) else t
        return not isinstance(tt, str) or self.m.kind(tt) == "input"

    def g_typename(self, tname, path):
        key = "__typename"
        alias = None
        if not self.try_register(path, key, ("__typename", (), "String!")):
            alias = self.fresh("t")
            self.try_register(path, alias, ("__typename", (), "String!"))
        return {"k": "field", "alias": alias, "n": "__typename", "args": [], "dirs": [], "sel": None}

    def g_field(self, tname, path, depth):
        c, m = self.c, self.m
        fields = self.fields_of(tname)
        if not fields:
            return self.g_typename(tname, path)
        cands = fields if depth > 0 else [f for f in fields if not self.composite(named(f["type"]))]
        if not cands:
            return self.g_typename(tname, path)
        f = c.choose(cands)
        if c.chance(90):
            # lean towards fields whose arguments are lists or input objects (input coercion is where
            # validation and execution have to agree on the most cases)
            rich = [x for x in cands if any(self.structured(a["type"]) for a in x["args"])]
            if rich:
                f = c.choose(rich)
                self.features.add("structured-argument-field")
        args = []
        for a in f["args"]:
            required = is_nn(a["type"]) and a["default"] is None
            if required or c.chance(150) or (self.structured(a["type"]) and c.chance(128)):
                args.append([a["name"], self.g_arg_value(a["type"], required)])
        if args:
            self.features.add("argument")
        if any(a["default"] is not None and a["name"] not in [x[0] for x in args] for a in f["args"]):
            self.features.add("defaulted-argument")
        sig = (f["name"], _canon_args(args), type_str(f["type"]), tname if self.composite(named(f["type"])) else "")
        alias = None
        key = f["name"]
        if self.collide and c.chance(self.collide):
            # conflict-seeking mode (C14): a response key from a tiny pool, no legality check
            alias = c.choose(["k1", "k2", "k1", None])
            key = alias or f["name"]
            self.features.add("forced-key")
            self.registry.setdefault(path, {}).setdefault(key, sig)
        elif c.chance(70):
            alias = self.fresh("a")
            key = alias
            self.features.add("alias")
        if not self.collide and not self.try_register(path, key, sig):
            alias = self.fresh("a")
            key = alias
            self.try_register(path, key, sig)
            self.features.add("alias")
        sub = None
        ft = named(f["type"])
        if self.composite(ft):
            sub = self.g_selset(ft, path + (key,), depth - 1)
            if m.kind(ft) != "object":
                self.features.add("abstract-field")
        if not isinstance(f["type"], str) and "list" in type_str(f["type"]).replace("[", "list"):
            self.features.add("list")
        if is_nn(f["type"]):
            self.features.add("non-null")
        dirs = self.g_directives()
        outer = nullable(f["type"]) if is_nn(f["type"]) else f["type"]
        if self.incremental and not isinstance(outer, str) and c.chance(150):
            self.labels += 1
            sargs = [["label", {"k": "str", "v": f"S{self.labels}"}]]
            if c.chance(200):
                sargs.append(["initialCount", {"k": "int", "v": str(c.choose([0, 0, 1, 1, 2, 3, 5]))}])
            if c.chance(40):
                sargs.append(["if", {"k": "bool", "v": bool(c.pick(3))}])
            dirs = dirs + [{"n": "stream", "args": sargs}]
            self.features.add("stream")
            # a streamed field must not be merged with another selection of the same response key
            self.registry.setdefault(path, {})[key] = ("<streamed>", self.labels)
        return {"k": "field", "alias": alias, "n": f["name"], "args": args, "dirs": dirs, "sel": sub}

    def g_inline(self, tname, path, depth):
        c = self.c
        on = None
        inner = tname
        if c.chance(200):
            on = c.choose(self.overlapping_types(tname))
            inner = on
            self.features.add("typed-inline-fragment")
        dirs = self.g_directives()
        if self.incremental and c.chance(110):
            dirs = dirs + [self.defer_directive()]
        sel = self.g_selset(inner, path, max(depth, 0))
        return {"k": "inline", "on": on, "dirs": dirs, "sel": sel}

    def defer_directive(self):
        c = self.c
        self.labels += 1
        args = [["label", {"k": "str", "v": f"D{self.labels}"}]]
        if c.chance(50):
            args.append(["if", {"k": "bool", "v": bool(c.pick(3))}])
        self.features.add("defer")
        return {"n": "defer", "args": args}

    def g_spread(self, tname, path, depth):
        c = self.c
        # reuse an existing fragment if it applies here and all its fields merge at this path
        reusable = [n for n, info in self.frag_info.items()
                    if info["on"] in self.overlapping_types(tname) and not info.get("open")]
        if reusable and c.chance(128):
            name = c.choose(reusable)
            info = self.frag_info[name]
            if self.collide or all(self.try_register(path + rel, key, sig, commit=False)
                                   for rel, key, sig in info["entries"]):
                for rel, key, sig in info["entries"]:
                    self.try_register(path + rel, key, sig)
                self.features.add("fragment-reuse")
                return {"k": "spread", "n": name, "args": None, "dirs": self.g_directives()}
        name = self.fresh("F")
        on = c.choose(self.overlapping_types(tname))
        # generate the fragment body against the registry of this site, recording what it registers
        before = {p: dict(s) for p, s in self.registry.items()}
        self.frag_info[name] = {"on": on, "entries": [], "open": True}
        sel = self.g_selset(on, path, max(depth, 0))
        entries = []
        for p, scope in self.registry.items():
            if p[:len(path)] != path:
                continue
            for key, sig in scope.items():
                if before.get(p, {}).get(key) is None:
                    entries.append((p[len(path):], key, sig))
        # entries the body merged into (already present before) matter for reuse too
        self.frag_info[name] = {"on": on, "entries": entries + _touched(sel, self, on, path, before)}
        self.frags.append({"k": "frag", "desc": None, "n": name, "vars": [], "on": on, "dirs": [],
                           "sel": sel})
        self.features.add("named-fragment")
        dirs = self.g_directives()
        if self.incremental and c.chance(110):
            dirs = dirs + [self.defer_directive()]
        return {"k": "spread", "n": name, "args": None, "dirs": dirs}

    def g_overlap(self, tname, path):
        """Incremental stratum: one composite field selected under the same response key by a deferred
        fragment nested *below* it and by a sibling deferred fragment *above* it, with overlapping
        sub-fields - a field shared by two deferred fragments at different path depths."""
        import copy

        c = self.c
        comp = [f for f in self.fields_of(tname) if self.composite(named(f["type"]))
                and not any(is_nn(a["type"]) and a["default"] is None for a in f["args"])]
        if not comp:
            return []
        f = c.choose(comp)
        key = self.fresh("x")
        sig = (f["name"], _canon_args([]), type_str(f["type"]), tname)
        self.try_register(path, key, sig)
        ft = named(f["type"])
        inner = self.g_selset(ft, path + (key,), 1)
        shared = [copy.deepcopy(s) for s in inner if s["k"] == "field" and c.chance(170)] or \
            [copy.deepcopy(inner[0])]
        for s_ in shared:
            s_["dirs"] = [d for d in s_["dirs"] if d["n"] not in ("defer", "stream")]
        extra = self.g_selset(ft, path + (key,), 1) if c.chance(128) else []
        deep = {"k": "field", "alias": key, "n": f["name"], "args": [], "dirs": [],
                "sel": [{"k": "inline", "on": None, "dirs": [self.defer_directive()], "sel": inner}]}
        above = {"k": "inline", "on": None, "dirs": [self.defer_directive()],
                 "sel": [{"k": "field", "alias": key, "n": f["name"], "args": [], "dirs": [],
                          "sel": shared + extra}]}
        self.features.add("shared-field-at-two-depths")
        return [deep, above] if c.chance(128) else [above, deep]

    def g_stream_twice(self, tname, path):
        """Incremental stratum: a fragment holding a streamed list field is spread at two places, and one of
        the two places selects the same list again with an identical (unlabelled) @stream and other
        sub-fields, so that one field node takes part in two different merged field lists."""
        c = self.c
        cands = []
        for f in self.fields_of(tname):
            ft = named(f["type"])
            if self.m.kind(ft) != "object" or any(is_nn(a["type"]) and a["default"] is None for a in f["args"]):
                continue
            for lf in self.fields_of(ft):
                outer = nullable(lf["type"]) if is_nn(lf["type"]) else lf["type"]
                if not isinstance(outer, str) and self.composite(named(lf["type"])) and not any(
                        is_nn(a["type"]) and a["default"] is None for a in lf["args"]):
                    cands.append((f, ft, lf))
        if not cands:
            return []
        f, ft, lf = c.choose(cands)
        lt = named(lf["type"])
        k1, k2, lk = self.fresh("y"), self.fresh("y"), self.fresh("l")
        stream = {"n": "stream", "args": [["initialCount", {"k": "int", "v": str(c.choose([0, 0, 1, 2]))}]]}
        leafs = [x for x in self.fields_of(lt) if not self.composite(named(x["type"]))
                 and not any(is_nn(a["type"]) and a["default"] is None for a in x["args"])]

        def leaf(alias):
            n = c.choose(leafs)["name"] if leafs and c.chance(200) else "__typename"
            return {"k": "field", "alias": alias, "n": n, "args": [], "dirs": [], "sel": None}

        # plain leaf selections (no variables, no fragments): the stratum is about the two merged field lists
        sub_a = [leaf(None)] + ([leaf(self.fresh("a"))] if c.chance(100) else [])
        sub_b = [leaf(self.fresh("b")) for _ in range(c.count(1, 2))]
        name = self.fresh("FS")
        self.frags.append({"k": "frag", "desc": None, "n": name, "vars": [], "on": ft, "dirs": [],
                           "sel": [{"k": "field", "alias": lk, "n": lf["name"], "args": [], "dirs": [dict(stream)],
                                    "sel": sub_a}]})
        spread = {"k": "spread", "n": name, "args": None, "dirs": []}
        first = {"k": "field", "alias": k1, "n": f["name"], "args": [], "dirs": [], "sel": [dict(spread)]}
        second = {"k": "field", "alias": k2, "n": f["name"], "args": [], "dirs": [],
                  "sel": [dict(spread), {"k": "field", "alias": lk, "n": lf["name"], "args": [],
                                         "dirs": [dict(stream)], "sel": sub_b}]}
        for key in (k1, k2):
            self.registry.setdefault(path, {})[key] = ("<stream-twice>", key)
        self.features.add("stream-twice")
        self.features.add("stream")
        return [first, second] if c.chance(128) else [second, first]

    # ---- whole documents ----------------------------------------------------------------------------
    def vardefs(self):
        return [{"desc": None, "n": n, "t": _g1_type(d["t"]), "default": d["default"], "dirs": []}
                for n, d in self.vars.items()]


def _touched(sel, gen, on, path, before):
    """Entries for response keys a fragment body re-selected (they existed before at this site)."""
    out = []

    def walk(ss, p):
        for s in ss:
            if s["k"] == "field":
                key = s["alias"] or s["n"]
                sig = gen.registry.get(p, {}).get(key)
                if sig is not None and before.get(p, {}).get(key) is not None:
                    out.append((p[len(path):], key, sig))
                if s["sel"]:
                    walk(s["sel"], p + (key,))
            elif s["k"] == "inline":
                walk(s["sel"], p)
    walk(sel, path)
    return out


def _rename_vars(lit, ren):
    k = lit["k"]
    if k == "var":
        return {"k": "var", "n": ren.get(lit["n"], lit["n"])}
    if k == "list":
        return {"k": "list", "vs": [_rename_vars(x, ren) for x in lit["vs"]]}
    if k == "obj":
        return {"k": "obj", "fs": [[n, _rename_vars(x, ren)] for n, x in lit["fs"]]}
    return lit


def _canon_args(args):
    import json

    return json.dumps(sorted([[n, v] for n, v in args], key=lambda x: x[0]), sort_keys=True)


def _g1_type(t):
    if isinstance(t, str):
        return {"k": "named", "n": t}
    if t[0] == "nn":
        return {"k": "nonnull", "t": _g1_type(t[1])}
    return {"k": "listT", "t": _g1_type(t[1])}


def g_document(c, m, depth=3, operation=None, incremental=False, n_ops=None, collide=0):
    """{"tree": G1 doc tree, "ops": [(name, kind)], "vars": {op name: {var: {t, default}}}, "features"}"""
    m = as_model(m)
    defs = []
    ops = []
    all_vars = {}
    features = set()
    frags = []
    n_ops = n_ops or (1 if c.chance(200) else 2)
    counter = 0
    for i in range(n_ops):
        kind = operation or ("mutation" if (m["mutation"] and c.chance(60)) else "query")
        gen = DocGen(c, m, incremental=incremental, collide=collide)
        gen.counter = counter
        root = m[kind]
        sel = gen.g_selset(root, (), depth)
        if incremental and c.chance(90):
            sel = gen.g_overlap(root, ()) + sel
        if incremental and c.chance(40):
            sel = gen.g_stream_twice(root, ()) + sel
        if kind == "mutation":
            # several top-level fields with sub-selections
            for _ in range(c.count(1, 3)):
                f = gen.g_field(root, (), depth)
                if f:
                    sel.append(f)
            gen.features.add("mutation")
        counter = gen.counter
        name = f"Op{i}"
        op = {"k": "op", "short": False, "desc": None, "op": kind, "n": name, "vars": gen.vardefs(),
              "dirs": [], "sel": sel}
        if n_ops == 1 and not gen.vars and kind == "query" and c.chance(80):
            op = {"k": "op", "short": True, "sel": sel}
            name = None
        defs.append(op)
        frags += gen.frags
        ops.append([name, kind])
        all_vars[name or ""] = gen.vars
        features |= gen.features
    tree = {"k": "doc", "defs": defs + frags, "frag_args": False, "dir_on_dir": False}
    return {"tree": tree, "ops": ops, "vars": all_vars, "features": sorted(features)}


def g_variable_values(c, m, vars_, mode="valid"):
    """A variables map for the declared variables. mode 'valid': accepted by coercion (by construction)."""
    m = as_model(m)
    out = {}
    for n, d in vars_.items():
        t = d["t"]
        k = c.pick(6)
        optional = not is_nn(t) or d["default"] is not None
        if optional and k == 0:
            continue  # not provided
        if not is_nn(t) and k == 1:
            out[n] = None
            continue
        out[n] = g2.g_value(c, m, t, 2, allow_null=False) if is_nn(t) else g2.g_value(c, m, t, 2)
        if mode == "any" and c.chance(30):
            out[n] = g5.perturb_value(c, m, t, out[n])
    return out


# ------------------------------------------------------------------------------------------
# G3m - near-valid mutants of a generated document (each breaks one validation rule's premise)

MUTATIONS = ["weaken-variable", "perturb-literal", "drop-required-arg", "retarget-condition",
             "rename-field", "leaf-subselection", "drop-subselection", "nullable-var-in-list",
             "duplicate-key", "undeclared-variable", "unknown-argument", "weaken-inner-variable",
             "nullable-var-deep", "nullable-var-deep", "nullable-var-deep"]
STRUCTURAL = ["fragment-cycle", "unknown-fragment", "duplicate-definition", "root-spread"]


def _walk_fields(tree):
    """[(selection dict, owner list)] for all field selections incl. fragments."""
    out = []

    def walk(sel):
        for s in sel:
            if s["k"] == "field":
                out.append((s, sel))
                if s["sel"]:
                    walk(s["sel"])
            elif s["k"] == "inline":
                walk(s["sel"])
    for d in tree["defs"]:
        if d["k"] in ("op", "frag"):
            walk(d["sel"])
    return out


def _walk_typed_fields(m, tree):
    """[(selection dict, field definition of the model, owning definition)] for the field selections
    whose definition the model knows."""
    out = []

    def walk(sel, parent, owner):
        for s in sel or []:
            if s["k"] == "field":
                pdef = m.get(parent) if parent else None
                fdef = next((f for f in (pdef or {}).get("fields", []) if f["name"] == s["n"]), None)
                if fdef is not None:
                    out.append((s, fdef, owner))
                walk(s["sel"], named(fdef["type"]) if fdef else None, owner)
            elif s["k"] == "inline":
                walk(s["sel"], s["on"] or parent, owner)
    for d in tree["defs"]:
        if d["k"] == "op":
            walk(d["sel"], m["query" if d.get("short") else d["op"]], d)
        elif d["k"] == "frag":
            walk(d["sel"], d["on"], d)
    return out


def _typed_positions(m, t, lit, out, holder, key):
    """All (holder, key, type) positions inside a literal, through bare items standing for lists."""
    out.append((holder, key, t))
    tt = nullable(t) if is_nn(t) else t
    if not isinstance(tt, str):
        if lit["k"] == "list":
            for i, x in enumerate(lit["vs"]):
                _typed_positions(m, tt[1], x, out, lit["vs"], i)
        elif lit["k"] not in ("null", "var"):
            out.pop()  # the bare item itself is offered once, as an item
            _typed_positions(m, tt[1], lit, out, holder, key)
    elif lit["k"] == "obj" and m.kind(tt) == "input":
        ft = {f["name"]: f["type"] for f in m.get(tt)["fields"]}
        for pair in lit["fs"]:
            if pair[0] in ft:
                _typed_positions(m, ft[pair[0]], pair[1], out, pair, 1)


def mutate_document(c, m, doc):
    """A copy of doc with one mutation; (doc, kind) or None."""
    import copy

    m = as_model(m)
    d = copy.deepcopy(doc)
    tree = d["tree"]
    # value-level mutations keep their share; one mutant in seven is structural
    kind = c.choose(STRUCTURAL) if c.pick(7) == 0 else c.choose(MUTATIONS + ["nullable-var-in-list"])
    fields = _walk_fields(tree)
    ops = [x for x in tree["defs"] if x["k"] == "op" and not x.get("short")]
    try:
        if kind == "weaken-variable":
            op = c.choose([o for o in ops if o["vars"]])
            v = c.choose([v for v in op["vars"] if v["t"]["k"] == "nonnull"])
            v["t"] = v["t"]["t"]
            d["vars"][op["n"]][v["n"]]["t"] = d["vars"][op["n"]][v["n"]]["t"][1]
        elif kind == "weaken-inner-variable":
            op = c.choose([o for o in ops if o["vars"]])
            cands = [v for v in op["vars"] if _has_inner_nn(v["t"])]
            v = c.choose(cands)
            v["t"] = _strip_inner_nn(v["t"])
            d["vars"][op["n"]][v["n"]]["t"] = _strip_inner_nn_model(d["vars"][op["n"]][v["n"]]["t"])
        elif kind == "perturb-literal":
            s, _o = c.choose([(s, o) for s, o in fields if s["args"]])
            a = c.choose(s["args"])
            a[1] = g5.perturb_literal(c, a[1]) if a[1]["k"] != "var" else {"k": "str", "v": "wrong"}
        elif kind == "drop-required-arg":
            s, _o = c.choose([(s, o) for s, o in fields if s["args"]])
            s["args"].pop(c.pick(len(s["args"])))
        elif kind == "retarget-condition":
            inl = []

            def walk(sel):
                for s in sel:
                    if s["k"] == "inline":
                        inl.append(s)
                        walk(s["sel"])
                    elif s["k"] == "field" and s["sel"]:
                        walk(s["sel"])
            for x in tree["defs"]:
                walk(x["sel"])
            frs = [x for x in tree["defs"] if x["k"] == "frag"]
            tgt = c.choose(inl + frs)
            names = [o["name"] for o in m["objects"]] + [i["name"] for i in m["interfaces"]]
            tgt["on"] = c.choose(names)
        elif kind == "rename-field":
            s, _o = c.choose(fields)
            s["n"] = c.choose(g2.FIELD_NAMES)
        elif kind == "leaf-subselection":
            s, _o = c.choose([(s, o) for s, o in fields if not s["sel"]])
            s["sel"] = [{"k": "field", "alias": None, "n": "id", "args": [], "dirs": [], "sel": None}]
        elif kind == "drop-subselection":
            s, _o = c.choose([(s, o) for s, o in fields if s["sel"]])
            s["sel"] = None
        elif kind == "nullable-var-in-list":
            # a nullable variable as an item or field inside a literal at a stricter position
            s, _o = c.choose([(s, o) for s, o in fields if any(a[1]["k"] in ("list", "obj") for a in s["args"])])
            a = c.choose([a for a in s["args"] if a[1]["k"] in ("list", "obj")])
            op = c.choose(ops)
            name = "w" + str(len(op["vars"]))
            vt = c.choose(["Int", "String", "Boolean", "ID", "Float"])
            op["vars"].append({"desc": None, "n": name, "t": {"k": "named", "n": vt}, "default": None,
                               "dirs": []})
            d["vars"][op["n"]][name] = {"t": vt, "default": None}
            if a[1]["k"] == "list":
                a[1]["vs"].append({"k": "var", "n": name})
            else:
                if not a[1]["fs"]:
                    return None
                a[1]["fs"][c.pick(len(a[1]["fs"]))][1] = {"k": "var", "n": name}
        elif kind == "nullable-var-deep":
            # a variable of the *nullable* type of a position anywhere inside an argument literal
            # (list items, input object fields, OneOf members, bare items standing for a list of one)
            def structured(t):
                tt = nullable(t) if is_nn(t) else t
                return not isinstance(tt, str) or m.kind(tt) == "input"

            typed = [(s, f, o) for s, f, o in _walk_typed_fields(m, tree)
                     if any(structured(x["type"]) for x in f["args"])]
            s, fdef, owner = c.choose(typed)
            adef = c.choose([x for x in fdef["args"] if structured(x["type"])])
            a = next((a for a in s["args"] if a[0] == adef["name"]), None)
            if a is None or a[1]["k"] not in ("list", "obj"):
                # write the argument out in full so that there are positions to put a variable in
                lit = g5.value_to_lit(m, adef["type"], g2.g_value(c, m, adef["type"], 2, allow_null=False))
                if c.chance(100):
                    lit = g5.unwrap_singletons(c, m, adef["type"], lit, 128)
                if lit["k"] not in ("list", "obj"):
                    return None
                if a is None:
                    a = [adef["name"], lit]
                    s["args"].append(a)
                else:
                    a[1] = lit
            pos = []
            _typed_positions(m, adef["type"], a[1], pos, a, 1)
            cands = pos[1:] or pos
            strict = [x for x in cands if is_nn(x[2])]
            holder, key, pt = c.choose(strict if strict and c.chance(170) else cands)
            if holder[key]["k"] == "var":
                return None
            vt = nullable(pt) if (is_nn(pt) and c.chance(200)) else pt
            targets = [owner] if owner["k"] == "op" else ops
            if not targets or any(o.get("short") for o in targets):
                return None
            name = "w" + str(max(len(o["vars"]) for o in targets))
            for op in targets:
                op["vars"].append({"desc": None, "n": name, "t": _g1_type(vt), "default": None, "dirs": []})
                d["vars"][op["n"]][name] = {"t": vt, "default": None}
            holder[key] = {"k": "var", "n": name}
        elif kind == "duplicate-key":
            s, owner = c.choose(fields)
            other, _o2 = c.choose(fields)
            dup = copy.deepcopy(other)
            dup["alias"] = s["alias"] or s["n"]
            owner.append(dup)
        elif kind == "undeclared-variable":
            s, _o = c.choose([(s, o) for s, o in fields if s["args"]])
            c.choose(s["args"])[1] = {"k": "var", "n": "nope"}
        elif kind == "unknown-argument":
            s, _o = c.choose(fields)
            s["args"].append(["zz_unknown", {"k": "int", "v": "1"}])
        elif kind == "fragment-cycle":
            # a fragment that spreads itself, directly or through a second fragment; also spread at the
            # root of an operation so that operation-level rules walk into the cycle
            frs = [x for x in tree["defs"] if x["k"] == "frag"]
            f1 = c.choose(frs)
            f2 = c.choose(frs)
            f1["sel"].append({"k": "spread", "n": f2["n"], "args": None, "dirs": []})
            if f2 is not f1:
                f2["sel"].append({"k": "spread", "n": f1["n"], "args": None, "dirs": []})
            if c.chance(128):
                c.choose(ops)["sel"].append({"k": "spread", "n": f1["n"], "args": None, "dirs": []})
        elif kind == "unknown-fragment":
            owner = c.choose([o["sel"] for o in ops] + [x["sel"] for x in tree["defs"] if x["k"] == "frag"])
            owner.append({"k": "spread", "n": "Nope", "args": None, "dirs": []})
        elif kind == "duplicate-definition":
            x = c.choose([x for x in tree["defs"] if not x.get("short")])
            tree["defs"].insert(c.pick(len(tree["defs"]) + 1), copy.deepcopy(x))
        elif kind == "root-spread":
            # any fragment spread at the root of any operation (type conditions may not fit)
            frs = [x for x in tree["defs"] if x["k"] == "frag"]
            c.choose(ops)["sel"].append({"k": "spread", "n": c.choose(frs)["n"], "args": None,
                                         "dirs": []})
    except (IndexError, KeyError, TypeError):
        return None
    d["features"] = sorted(set(d["features"]) | {"mutant:" + kind})
    return d, kind


def _has_inner_nn(t):
    if t["k"] == "nonnull":
        return _has_inner_nn(t["t"])
    if t["k"] == "listT":
        return t["t"]["k"] == "nonnull" or _has_inner_nn(t["t"])
    return False


def _strip_inner_nn(t):
    if t["k"] == "nonnull":
        return {"k": "nonnull", "t": _strip_inner_nn(t["t"])}
    if t["k"] == "listT":
        inner = t["t"]["t"] if t["t"]["k"] == "nonnull" else _strip_inner_nn(t["t"])
        return {"k": "listT", "t": inner}
    return t


def _strip_inner_nn_model(t):
    if isinstance(t, str):
        return t
    if t[0] == "nn":
        return ["nn", _strip_inner_nn_model(t[1])]
    inner = t[1][1] if is_nn(t[1]) else _strip_inner_nn_model(t[1])
    return ["list", inner]
