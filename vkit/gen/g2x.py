"""G2x - single rule-violating edits of a valid schema model, each tagged with the R7 rule it breaks.

mutate(c, model) -> (mutated model, tag, element) or None when no mutation of the drawn kind applies.
Every mutation keeps all type references resolvable, so the mutant can still be *constructed*.
"""

from __future__ import annotations

import copy

from vkit.gen.g2 import as_model, is_nn, named, nullable

# tag -> fragment that must occur in at least one validate_schema message
EXPECT = {
    "type-no-fields": "must define one or more fields",
    "input-no-fields": "must define one or more fields",
    "enum-empty": "must define one or more values",
    "union-empty": "must define one or more member types",
    "interface-field-missing": "expected but",
    "field-not-covariant": "expects type",
    "interface-arg-missing": "expected but",
    "interface-arg-type-mismatch": "expects type",
    "extra-required-arg": "must not be required type",
    "implements-non-interface": "must only implement Interface types",
    "implements-itself": "cannot implement itself",
    "implements-duplicate": "can only implement",
    "missing-transitive-interface": "because it is implemented by",
    "union-member-not-object": "can only include Object types",
    "union-duplicate-member": "can only include type",
    "arg-type-not-input": "must be Input Type",
    "input-field-type-not-input": "must be Input Type",
    "field-type-not-output": "must be Output Type",
    "reserved-name": "must not begin with '__'",
    "roots-not-distinct": "All root types must be different",
    "root-not-object": "root type must be Object type",
    "query-root-missing": "Query root type must be provided",
    "invalid-default": "has invalid default value",
    "required-arg-deprecated": "cannot be deprecated",
    "required-input-field-deprecated": "cannot be deprecated",
    "input-non-null-cycle": "Invalid circular reference",
    "oneof-non-null-field": "must be nullable",
    "oneof-default": "cannot have a default value",
    "deprecated-implementation": "must not be deprecated",
    "directive-no-locations": "must include 1 or more locations",
    "default-cycle": "Invalid circular reference",
}


def _impl_pairs(m):
    """(holder, interface, interface field) triples where holder implements interface (and still
    provides the field with all of the interface's arguments - earlier mutations may have cut them)."""
    mm = as_model(m)
    out = []
    for key in ("objects", "interfaces"):
        for t in m[key]:
            for iname in t["interfaces"]:
                if mm.kind(iname) != "interface" or iname == t["name"]:
                    continue
                for f in mm.get(iname)["fields"]:
                    tf = [x for x in t["fields"] if x["name"] == f["name"]]
                    if tf and all(any(a["name"] == ia["name"] for a in tf[0]["args"]) for ia in f["args"]):
                        out.append((t, mm.get(iname), f))
    return out


def _field(t, name):
    return next(f for f in t["fields"] if f["name"] == name)


def _all_args(m):
    out = []
    for key in ("objects", "interfaces"):
        for t in m[key]:
            for f in t["fields"]:
                for a in f["args"]:
                    out.append((f"{t['name']}.{f['name']}", a, t, f))
    for d in m["directives"]:
        for a in d["args"]:
            out.append(("@" + d["name"], a, d, None))
    return out


def _wrong_value(m, t):
    """An external value that certainly does not coerce to input type t."""
    mm = as_model(m)
    if is_nn(t):
        return None
    if not isinstance(t, str):
        inner = _wrong_value(m, t[1])
        return [inner] if inner is not None else ["__no__", {"__no__": 1}] if named(t) in (
            "Int", "Float", "Boolean") else [{"__no__": 1}]
    k = mm.kind(t)
    if t in ("Int", "Float"):
        return "not a number"
    if t == "Boolean":
        return "yes"
    if t == "String":
        return 5
    if t == "ID":
        return 1.5
    if k == "enum":
        return "__NOT_A_VALUE"
    if k == "input":
        return {"__unknown_field": 1}
    return None  # custom scalars accept anything


MUTATIONS = [
    "empty-object", "empty-input", "empty-enum", "empty-union", "drop-interface-field", "uncovariant",
    "drop-interface-arg", "arg-type-mismatch", "extra-required-arg", "implements-object",
    "implements-itself", "implements-duplicate", "drop-transitive", "union-non-object",
    "union-duplicate", "arg-output-type", "input-field-output-type", "field-input-type",
    "reserved-field", "reserved-arg", "reserved-enum-value", "reserved-directive",
    "roots-same", "root-not-object", "no-query-root", "bad-default", "deprecated-required-arg",
    "deprecated-required-input-field", "input-cycle", "oneof-nn", "oneof-default",
    "deprecated-implementation", "directive-no-locations", "default-cycle", "reserved-input-field",
]


def mutate(c, model, kind=None):
    """One mutation, or None when the drawn kind does not apply (e.g. after an earlier mutation)."""
    try:
        return _mutate(c, model, kind)
    except (IndexError, KeyError, StopIteration, TypeError):
        return None


def _mutate(c, model, kind=None):
    m = copy.deepcopy(dict(model))
    mm = as_model(m)
    kind = kind or c.choose(MUTATIONS)

    def pick(seq):
        return c.choose(seq) if seq else None

    if kind == "empty-object":
        t = pick([o for o in m["objects"] if not o["interfaces"]] + m["objects"])
        t["fields"] = []
        t["interfaces"] = []
        return m, "type-no-fields", t["name"]
    if kind == "empty-input":
        t = pick(m["inputs"])
        if not t:
            return None
        t["fields"] = []
        return m, "input-no-fields", t["name"]
    if kind == "empty-enum":
        # only an enum that no default value refers to keeps the rest valid
        t = pick(m["enums"])
        t["values"] = []
        return m, "enum-empty", t["name"]
    if kind == "empty-union":
        t = pick(m["unions"])
        if not t:
            return None
        t["types"] = []
        return m, "union-empty", t["name"]
    pairs = _impl_pairs(m)
    if kind == "drop-interface-field":
        p = pick([p for p in pairs if len(p[0]["fields"]) > 1])
        if not p:
            return None
        t, _i, f = p
        t["fields"] = [x for x in t["fields"] if x["name"] != f["name"]]
        return m, "interface-field-missing", f"{t['name']}.{f['name']}"
    if kind == "uncovariant":
        p = pick(pairs)
        if not p:
            return None
        t, _i, f = p
        tf = _field(t, f["name"])
        tf["type"] = nullable(f["type"]) if is_nn(f["type"]) else ["list", ["list", ["list", f["type"]]]]
        return m, "field-not-covariant", f"{t['name']}.{f['name']}"
    if kind == "drop-interface-arg":
        p = pick([p for p in pairs if p[2]["args"]])
        if not p:
            return None
        t, _i, f = p
        a = c.choose(f["args"])
        tf = _field(t, f["name"])
        tf["args"] = [x for x in tf["args"] if x["name"] != a["name"]]
        return m, "interface-arg-missing", f"{t['name']}.{f['name']}"
    if kind == "arg-type-mismatch":
        p = pick([p for p in pairs if p[2]["args"]])
        if not p:
            return None
        t, _i, f = p
        a = c.choose(f["args"])
        ta = next(x for x in _field(t, f["name"])["args"] if x["name"] == a["name"])
        at = a["type"]
        k = c.pick(3)
        if k == 0 and not isinstance(at, str):
            # same number of wrappers, different wrapper kind at the outermost level
            if at[0] == "list":
                ta["type"] = ["nn", at[1]] if not is_nn(at[1]) else ["list", at[1][1]]
            else:
                ta["type"] = ["list", at[1]]
        elif k == 1 and not is_nn(at):
            ta["type"] = ["nn", at]
        else:
            ta["type"] = ["list", at]
        if is_nn(ta["type"]) and ta["default"] is None:
            ta["dep"] = None
        if ta["default"] is not None:
            ta["default"] = None
        return m, "interface-arg-type-mismatch", f"{t['name']}.{f['name']}"
    if kind == "extra-required-arg":
        p = pick(pairs)
        if not p:
            return None
        t, _i, f = p
        _field(t, f["name"])["args"].append({"name": "zz_req", "type": ["nn", "Int"], "default": None,
                                            "desc": None, "dep": None})
        return m, "extra-required-arg", f"{t['name']}.{f['name']}"
    if kind == "implements-object":
        t = c.choose(m["objects"])
        other = pick([o["name"] for o in m["objects"] if o["name"] != t["name"]])
        if not other:
            return None
        t["interfaces"] = t["interfaces"] + [other]
        return m, "implements-non-interface", t["name"]
    if kind == "implements-itself":
        t = pick(m["interfaces"])
        if not t:
            return None
        t["interfaces"] = t["interfaces"] + [t["name"]]
        return m, "implements-itself", t["name"]
    if kind == "implements-duplicate":
        t = pick([o for o in m["objects"] + m["interfaces"] if o["interfaces"]])
        if not t:
            return None
        t["interfaces"] = t["interfaces"] + [t["interfaces"][0]]
        return m, "implements-duplicate", t["name"]
    if kind == "drop-transitive":
        cands = [(o, i) for o in m["objects"] + m["interfaces"] for i in o["interfaces"]
                 if any(i in mm.get(j)["interfaces"] for j in o["interfaces"])]
        p = pick(cands)
        if not p:
            return None
        o, i = p
        o["interfaces"] = [x for x in o["interfaces"] if x != i]
        return m, "missing-transitive-interface", o["name"]
    if kind == "union-non-object":
        u = pick(m["unions"])
        if not u:
            return None
        other = c.choose([e["name"] for e in m["enums"]] + [i["name"] for i in m["interfaces"]]
                         + ["Int"] + [u2["name"] for u2 in m["unions"]])
        u["types"] = u["types"] + [other]
        return m, "union-member-not-object", u["name"]
    if kind == "union-duplicate":
        u = pick(m["unions"])
        if not u:
            return None
        u["types"] = u["types"] + [u["types"][0]]
        return m, "union-duplicate-member", u["name"]
    args = _all_args(m)
    if kind == "arg-output-type":
        p = pick(args)
        if not p:
            return None
        el, a, _t, _f = p
        a["type"] = c.choose([o["name"] for o in m["objects"]] + [i["name"] for i in m["interfaces"]]
                             + [u["name"] for u in m["unions"]])
        keep_default = c.chance(128)
        if not keep_default:
            a["default"] = None
        elif a["default"] is None:
            a["default"] = ["v", 1]
        return m, "arg-type-not-input", el
    if kind == "input-field-output-type":
        io = pick(m["inputs"])
        if not io:
            return None
        f = c.choose(io["fields"])
        f["type"] = c.choose([o["name"] for o in m["objects"]])
        if c.chance(128):
            f["default"] = None
        elif f["default"] is None and not io["oneof"]:
            f["default"] = ["v", {"id": 1}]
        return m, "input-field-type-not-input", f"{io['name']}.{f['name']}"
    if kind == "field-input-type":
        io = pick(m["inputs"])
        if not io:
            return None
        t = c.choose(m["objects"] + m["interfaces"])
        own = [f for f in t["fields"]
               if not any(f["name"] == x[2]["name"] and x[0] is t for x in pairs)]
        f = pick(own)
        if not f:
            return None
        f["type"] = io["name"]
        return m, "field-type-not-output", f"{t['name']}.{f['name']}"
    if kind == "reserved-field":
        t = c.choose(m["objects"])
        t["fields"].append({"name": "__bad", "type": "Int", "args": [], "desc": None, "dep": None})
        return m, "reserved-name", f"{t['name']}.__bad"
    if kind == "reserved-input-field":
        io = pick([i for i in m["inputs"] if not i["oneof"]])
        if not io:
            return None
        io["fields"].append({"name": "__bad", "type": "Int", "default": None, "desc": None, "dep": None})
        return m, "reserved-name", f"{io['name']}.__bad"
    if kind == "reserved-arg":
        t = c.choose(m["objects"])
        own = [f for f in t["fields"] if not any(f["name"] == x[2]["name"] and x[0] is t for x in pairs)]
        f = pick(own)
        if not f:
            return None
        f["args"].append({"name": "__bad", "type": "Int", "default": None, "desc": None, "dep": None})
        return m, "reserved-name", f"{t['name']}.{f['name']}(__bad:)"
    if kind == "reserved-enum-value":
        e = c.choose(m["enums"])
        e["values"].append({"name": "__BAD", "desc": None, "dep": None})
        return m, "reserved-name", f"{e['name']}.__BAD"
    if kind == "reserved-directive":
        m["directives"].append({"name": "__bad", "desc": None, "args": [], "repeatable": False,
                                "locations": ["FIELD"]})
        return m, "reserved-name", "@__bad"
    if kind == "roots-same":
        m["mutation"] = m["query"]
        m["force_schema_block"] = True
        return m, "roots-not-distinct", "schema"
    if kind == "root-not-object":
        op = c.choose(["query", "mutation", "subscription"])
        m[op] = c.choose([e["name"] for e in m["enums"]] + [i["name"] for i in m["interfaces"]]
                         + [i["name"] for i in m["inputs"]] + [u["name"] for u in m["unions"]])
        m["force_schema_block"] = True
        return m, "root-not-object", op
    if kind == "no-query-root":
        if not m["mutation"]:
            return None
        m["query"] = None
        m["force_schema_block"] = True
        return m, "query-root-missing", "schema"
    if kind == "bad-default":
        ivs = [(el, a) for el, a, _t, _f in args] + [
            (f"{io['name']}.{f['name']}", f) for io in m["inputs"] if not io["oneof"]
            for f in io["fields"]]
        ivs = [(el, a) for el, a in ivs if _wrong_value(m, a["type"]) is not None or is_nn(a["type"])]
        p = pick(ivs)
        if not p:
            return None
        el, a = p
        # keep interface/implementation argument pairs consistent: only the default changes
        a["default"] = ["v", _wrong_value(m, a["type"])]
        return m, "invalid-default", el
    if kind == "deprecated-required-arg":
        p = pick(args)
        if not p:
            return None
        el, a, _t, _f = p
        a["type"] = a["type"] if is_nn(a["type"]) else ["nn", a["type"]]
        a["default"] = None
        a["dep"] = c.choose(["gone", "", "No longer supported"])
        return m, "required-arg-deprecated", el
    if kind == "deprecated-required-input-field":
        io = pick([i for i in m["inputs"] if not i["oneof"]])
        if not io:
            return None
        io["fields"].append({"name": "zz_req", "type": ["nn", "Int"], "default": None, "desc": None,
                             "dep": c.choose(["gone", "", "No longer supported"])})
        return m, "required-input-field-deprecated", f"{io['name']}.zz_req"
    if kind == "input-cycle":
        io = pick([i for i in m["inputs"] if not i["oneof"]])
        if not io:
            return None
        io["fields"].append({"name": "zz_self", "type": ["nn", io["name"]], "default": None,
                             "desc": None, "dep": None})
        return m, "input-non-null-cycle", io["name"]
    if kind == "oneof-nn":
        io = pick([i for i in m["inputs"] if i["oneof"]])
        if not io:
            return None
        io["fields"].append({"name": "zz_nn", "type": ["nn", "Int"], "default": None, "desc": None,
                             "dep": None})
        return m, "oneof-non-null-field", f"{io['name']}.zz_nn"
    if kind == "oneof-default":
        io = pick([i for i in m["inputs"] if i["oneof"]])
        if not io:
            return None
        io["fields"].append({"name": "zz_def", "type": "Int", "default": ["v", 1], "desc": None,
                             "dep": None})
        return m, "oneof-default", f"{io['name']}.zz_def"
    if kind == "deprecated-implementation":
        p = pick([p for p in pairs if p[2]["dep"] is None])
        if not p:
            return None
        t, _i, f = p
        _field(t, f["name"])["dep"] = c.choose(["old", "", "No longer supported"])
        return m, "deprecated-implementation", f"{t['name']}.{f['name']}"
    if kind == "directive-no-locations":
        m["directives"].append({"name": "noloc", "desc": None, "args": [], "repeatable": False,
                                "locations": []})
        return m, "directive-no-locations", "@noloc"
    if kind == "default-cycle":
        io = pick([i for i in m["inputs"] if not i["oneof"]])
        if not io:
            return None
        io["fields"].append({"name": "zz_cyc", "type": io["name"], "default": ["v", {}], "desc": None,
                             "dep": None})
        return m, "default-cycle", io["name"]
    raise ValueError(kind)
