"""G5 - input values and literals for an input type of a schema model.

conforming values come from g2.g_value; this module adds near-miss perturbations, the adversarial
Python value pool, type-directed literal trees (G1 value format) with optional variables, and
literal perturbations.
"""

from __future__ import annotations

import enum
import re

_NAME = re.compile(r"[_A-Za-z][_0-9A-Za-z]*")

from vkit.gen.g2 import as_model, g_value, is_nn, named, nullable


class Weird:
    def __repr__(self):
        return "<Weird>"


class StrLike:
    def __str__(self):
        return "strlike"

    def __repr__(self):
        return "<StrLike>"


class MyInt(int):
    pass


class MyStr(str):
    pass


class MyDict(dict):
    pass


class PyEnum(enum.Enum):
    A = "A"


def adversarial_pool():
    from graphql.pyutils import Undefined

    return [None, True, False, 0, 1, -1, 2**31 - 1, 2**31, -(2**31), -(2**31) - 1, 2**53 + 1, 10**400,
            1.0, 1.5, -0.0, 2147483648.0, float("nan"), float("inf"), float("-inf"), 5e-324, "", "x",
            "1", "A", "RED", "1e3", " 1", "true", b"x", [], [1], [None], [[1]], (1, 2), (), {1, 2},
            frozenset(), {}, {"a": 1}, {"a": None}, {"zz": 1}, Weird(), StrLike(), MyInt(3),
            MyStr("A"), MyDict(a=1), PyEnum.A, Undefined, object, range(2), {"a": 1, "b": 2},
            [1, "x"], ["A"], "\ud800"]


def perturb_value(c, m, t, v):
    """A near miss: one position of a conforming value replaced by something of another class."""
    m = as_model(m)
    bad_leaf = c.choose(["wrong", 5.5, True, None, [1, 2], {"zz": 1}, 2**40, "A", "__NO__", -1, ""])
    if isinstance(v, dict) and v and c.chance(200):
        k = c.choose(sorted(v))
        kind = c.pick(4)
        out = dict(v)
        if kind == 0:
            out["__unknown"] = 1
        elif kind == 1:
            del out[k]
        elif kind == 2:
            io = m.get(named(t)) if m.kind(named(t)) == "input" else None
            ft = next((f["type"] for f in (io["fields"] if io else []) if f["name"] == k), "Int")
            out[k] = perturb_value(c, m, ft, v[k])
        else:
            out[k] = bad_leaf
        return out
    if isinstance(v, list) and v and c.chance(200):
        i = c.pick(len(v))
        out = list(v)
        inner = nullable(t)
        it = inner[1] if not isinstance(inner, str) else "Int"
        out[i] = perturb_value(c, m, it, v[i]) if c.chance(128) else bad_leaf
        return out
    return bad_leaf


def value_to_lit(m, t, v):
    """G1 literal tree for a conforming external value v of type t."""
    m = as_model(m)
    if v is None:
        return {"k": "null"}
    if is_nn(t):
        return value_to_lit(m, t[1], v)
    if not isinstance(t, str):
        if isinstance(v, list):
            return {"k": "list", "vs": [value_to_lit(m, t[1], x) for x in v]}
        return value_to_lit(m, t[1], v)
    k = m.kind(t)
    if k == "enum" and isinstance(v, str) and _NAME.fullmatch(v) and v not in ("true", "false", "null"):
        return {"k": "enum", "v": v}
    if k == "input" and isinstance(v, dict):
        ft = {f["name"]: f["type"] for f in m.get(t)["fields"]}
        return {"k": "obj", "fs": [[n, value_to_lit(m, ft.get(n, "Int"), x)] for n, x in v.items()]}
    return untyped_lit(v)


def untyped_lit(v):
    if v is None:
        return {"k": "null"}
    if isinstance(v, bool):
        return {"k": "bool", "v": v}
    if isinstance(v, int):
        return {"k": "int", "v": str(v)}
    if isinstance(v, float):
        r = repr(v)
        return {"k": "float", "v": r if ("." in r or "e" in r) else r + ".0"}
    if isinstance(v, str):
        return {"k": "str", "v": v}
    if isinstance(v, list):
        return {"k": "list", "vs": [untyped_lit(x) for x in v]}
    if isinstance(v, dict):
        return {"k": "obj", "fs": [[str(n), untyped_lit(x)] for n, x in v.items()]}
    raise TypeError(v)


def unwrap_singletons(c, m, t, lit, p=60):
    """Write some one-element list literals as the bare element (input coercion wraps it again).

    Legal exactly when the element is neither ``null`` (a bare null is the null list) nor a variable
    (a variable of the item type is not allowed in a list position)."""
    m = as_model(m)
    tt = nullable(t) if is_nn(t) else t
    if not isinstance(tt, str):
        if lit["k"] == "list":
            vs = [unwrap_singletons(c, m, tt[1], x, p) for x in lit["vs"]]
            if len(vs) == 1 and vs[0]["k"] not in ("null", "var") and c.chance(p):
                return vs[0]
            return {"k": "list", "vs": vs}
        return lit if lit["k"] in ("null", "var") else unwrap_singletons(c, m, tt[1], lit, p)
    if lit["k"] == "obj" and m.kind(tt) == "input":
        ft = {f["name"]: f["type"] for f in m.get(tt)["fields"]}
        return {"k": "obj", "fs": [[n, unwrap_singletons(c, m, ft[n], x, p) if n in ft else x]
                                   for n, x in lit["fs"]]}
    return lit


def insert_variables(c, m, t, lit, vars_out, p=40, top=True, bare_item=False, has_default=False):
    """Replace some sub-literals by variables; records {name: type} in vars_out."""
    m = as_model(m)
    if not bare_item and c.chance(p) and len(vars_out) < 3:
        name = f"v{len(vars_out)}"
        # declared type: the position's type, sometimes its non-null version; at a non-null position that
        # has a default a nullable variable is allowed too (the case the specification defers to run time)
        vt = t if (is_nn(t) or not c.chance(80)) else ["nn", t]
        if is_nn(t) and has_default and c.chance(128):
            vt = nullable(t)
        vars_out[name] = vt
        return {"k": "var", "n": name}
    tt = nullable(t) if is_nn(t) else t
    if lit["k"] == "list" and not isinstance(tt, str):
        return {"k": "list", "vs": [insert_variables(c, m, tt[1], x, vars_out, p, False)
                                    for x in lit["vs"]]}
    if not isinstance(tt, str) and lit["k"] not in ("null", "var"):
        # a bare element standing for a list of one: a variable may not replace the element itself
        return insert_variables(c, m, tt[1], lit, vars_out, p, False, bare_item=True)
    if lit["k"] == "obj" and isinstance(tt, str) and m.kind(tt) == "input":
        ft = {f["name"]: f["type"] for f in m.get(tt)["fields"]}
        fd = {f["name"]: f["default"] is not None for f in m.get(tt)["fields"]}
        return {"k": "obj", "fs": [[n, insert_variables(c, m, ft.get(n, "Int"), x, vars_out, p, False,
                                                       has_default=fd.get(n, False))]
                                   for n, x in lit["fs"]]}
    return lit


def perturb_literal(c, lit):
    """One leaf (or the whole literal) replaced by a literal of another kind."""
    repl = c.choose([{"k": "str", "v": "wrong"}, {"k": "int", "v": "5"}, {"k": "float", "v": "1.5"},
                     {"k": "bool", "v": True}, {"k": "null"}, {"k": "enum", "v": "NOPE"},
                     {"k": "list", "vs": [{"k": "int", "v": "1"}]}, {"k": "obj", "fs": [["zz", {"k": "int", "v": "1"}]]},
                     {"k": "int", "v": "2147483648"}, {"k": "float", "v": "1e400"}, {"k": "enum", "v": "A"},
                     {"k": "str", "v": "A"}, {"k": "int", "v": "-2147483649"}, {"k": "obj", "fs": []}])
    if lit["k"] == "list" and lit["vs"] and c.chance(180):
        i = c.pick(len(lit["vs"]))
        vs = list(lit["vs"])
        vs[i] = perturb_literal(c, vs[i])
        return {"k": "list", "vs": vs}
    if lit["k"] == "obj" and lit["fs"] and c.chance(200):
        i = c.pick(len(lit["fs"]))
        fs = [list(x) for x in lit["fs"]]
        kind = c.pick(3)
        if kind == 0:
            fs[i][1] = perturb_literal(c, fs[i][1])
        elif kind == 1:
            del fs[i]
        else:
            fs.append(["__unknown", {"k": "int", "v": "1"}])
        return {"k": "obj", "fs": fs}
    return repl


def g_input_type(c, m, max_wrappers=3):
    from vkit.gen.g2 import BUILTIN, wrap

    m = as_model(m)
    pool = BUILTIN + [s["name"] for s in m["scalars"]] + [e["name"] for e in m["enums"]]
    ins = [i["name"] for i in m["inputs"]]
    return wrap(c, c.choose(pool + ins + ins + ins), max_wrappers)


__all__ = ["g_value"]
