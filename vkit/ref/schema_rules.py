"""R7 - the specification's type-system validity rules over schema *models* (vkit.gen.g2).

violations(model) -> list of (rule tag, element) ; empty list == the schema is valid.
Independent of graphql-core.  Default values are checked with R4 (vkit.ref.coerce).
"""

from __future__ import annotations

from vkit.gen.g2 import BUILTIN, as_model, is_nn, named, nullable
from vkit.ref.coerce import INVALID, coerce_value

INPUT_KINDS = {"scalar", "enum", "input"}
OUTPUT_KINDS = {"scalar", "enum", "object", "interface", "union"}


def is_subtype(m, sub, sup):
    if sub == sup:
        return True
    if is_nn(sup):
        return is_nn(sub) and is_subtype(m, sub[1], sup[1])
    if is_nn(sub):
        return is_subtype(m, sub[1], sup)
    if not isinstance(sup, str):
        return (not isinstance(sub, str)) and sub[0] == "list" and is_subtype(m, sub[1], sup[1])
    if not isinstance(sub, str):
        return False
    ks = m.kind(sup)
    if ks == "union":
        return m.kind(sub) == "object" and sub in m.get(sup)["types"]
    if ks == "interface":
        return m.kind(sub) in ("object", "interface") and sup in m.get(sub)["interfaces"]
    return False


def required(a):
    return is_nn(a["type"]) and a["default"] is None


def violations(m):
    m = as_model(m)
    out = []

    def v(rule, el):
        out.append((rule, el))

    def name_ok(n, el):
        if n.startswith("__"):
            v("reserved-name", el)

    # roots
    roots = [(op, m[op]) for op in ("query", "mutation", "subscription")]
    if m["query"] is None:
        v("query-root-missing", "schema")
    for op, n in roots:
        if n is not None and m.kind(n) != "object":
            v("root-not-object", op)
    present = [n for _op, n in roots if n is not None and m.kind(n) == "object"]
    if len(set(present)) != len(present):
        v("roots-not-distinct", "schema")

    def check_args(args, el, iface_level=False):
        for a in args:
            name_ok(a["name"], f"{el}({a['name']}:)")
            if m.kind(named(a["type"])) not in INPUT_KINDS:
                v("arg-type-not-input", f"{el}({a['name']}:)")
                continue
            if required(a) and a["dep"] is not None:
                v("required-arg-deprecated", f"{el}({a['name']}:)")
            if a["default"] is not None and coerce_value(m, a["type"], a["default"][1]) is INVALID:
                v("invalid-default", f"{el}({a['name']}:)")

    for d in m["directives"]:
        name_ok(d["name"], "@" + d["name"])
        if not d["locations"]:
            v("directive-no-locations", "@" + d["name"])
        check_args(d["args"], "@" + d["name"])

    for key in ("scalars", "enums", "inputs", "interfaces", "objects", "unions"):
        for t in m[key]:
            name_ok(t["name"], t["name"])
    for e in m["enums"]:
        if not e["values"]:
            v("enum-empty", e["name"])
        for val in e["values"]:
            name_ok(val["name"], f"{e['name']}.{val['name']}")
            if val["name"] in ("true", "false", "null"):
                v("enum-value-reserved", f"{e['name']}.{val['name']}")
    for u in m["unions"]:
        if not u["types"]:
            v("union-empty", u["name"])
        if len(set(u["types"])) != len(u["types"]):
            v("union-duplicate-member", u["name"])
        for n in u["types"]:
            if m.kind(n) != "object":
                v("union-member-not-object", u["name"])
    for key in ("interfaces", "objects"):
        for t in m[key]:
            if not t["fields"]:
                v("type-no-fields", t["name"])
            for f in t["fields"]:
                el = f"{t['name']}.{f['name']}"
                name_ok(f["name"], el)
                if m.kind(named(f["type"])) not in OUTPUT_KINDS:
                    v("field-type-not-output", el)
                check_args(f["args"], el)
            seen = set()
            for iname in t["interfaces"]:
                if m.kind(iname) != "interface":
                    v("implements-non-interface", t["name"])
                    continue
                if iname == t["name"]:
                    v("implements-itself", t["name"])
                    continue
                if iname in seen:
                    v("implements-duplicate", t["name"])
                    continue
                seen.add(iname)
                iface = m.get(iname)
                for tr in iface["interfaces"]:
                    if tr not in t["interfaces"]:
                        v("missing-transitive-interface", t["name"])
                fields = {f["name"]: f for f in t["fields"]}
                for ifld in iface["fields"]:
                    f = fields.get(ifld["name"])
                    el = f"{t['name']}.{ifld['name']}"
                    if f is None:
                        v("interface-field-missing", el)
                        continue
                    if not is_subtype(m, f["type"], ifld["type"]):
                        v("field-not-covariant", el)
                    fargs = {a["name"]: a for a in f["args"]}
                    for ia in ifld["args"]:
                        a = fargs.get(ia["name"])
                        if a is None:
                            v("interface-arg-missing", el)
                        elif a["type"] != ia["type"]:
                            v("interface-arg-type-mismatch", el)
                    inames = {ia["name"] for ia in ifld["args"]}
                    for a in f["args"]:
                        if a["name"] not in inames and required(a):
                            v("extra-required-arg", el)
                    if f["dep"] is not None and ifld["dep"] is None:
                        v("deprecated-implementation", el)
    for io in m["inputs"]:
        if not io["fields"]:
            v("input-no-fields", io["name"])
        for f in io["fields"]:
            el = f"{io['name']}.{f['name']}"
            name_ok(f["name"], el)
            if m.kind(named(f["type"])) not in INPUT_KINDS:
                v("input-field-type-not-input", el)
                continue
            if required(f) and f["dep"] is not None:
                v("required-input-field-deprecated", el)
            if io["oneof"]:
                if is_nn(f["type"]):
                    v("oneof-non-null-field", el)
                if f["default"] is not None:
                    v("oneof-default", el)
            if f["default"] is not None and coerce_value(m, f["type"], f["default"][1]) is INVALID:
                v("invalid-default", el)
    # unbreakable input cycles: chains of non-null (non-list) input object fields
    graph = {}
    for io in m["inputs"]:
        graph[io["name"]] = [f["type"][1] for f in io["fields"]
                             if is_nn(f["type"]) and isinstance(f["type"][1], str)
                             and m.kind(f["type"][1]) == "input"]
    color = {}

    def dfs(n):
        color[n] = 1
        for x in graph.get(n, []):
            if color.get(x) == 1:
                v("input-non-null-cycle", x)
            elif color.get(x) is None:
                dfs(x)
        color[n] = 2

    for n in graph:
        if color.get(n) is None:
            dfs(n)
    # default value cycles: a field default that, through omitted fields with defaults, reaches itself
    def reached(t, value):
        t = nullable(t) if is_nn(t) else t
        if value is None:
            return []
        if not isinstance(t, str):
            items = value if isinstance(value, list) else [value]
            return [r for x in items for r in reached(t[1], x)]
        if m.kind(t) != "input" or not isinstance(value, dict):
            return []
        res = []
        for g in m.get(t)["fields"]:
            if g["name"] in value:
                res += reached(g["type"], value[g["name"]])
            elif g["default"] is not None:
                res.append((t, g["name"]))
        return res

    edges = {}
    for io in m["inputs"]:
        for g in io["fields"]:
            if g["default"] is not None:
                edges[(io["name"], g["name"])] = reached(g["type"], g["default"][1])
    col = {}

    def dfs2(n):
        col[n] = 1
        for x in edges.get(n, []):
            if col.get(x) == 1:
                v("default-cycle", x[0])
            elif col.get(x) is None:
                dfs2(x)
        col[n] = 2

    for n in edges:
        if col.get(n) is None:
            dfs2(n)
    return out
