"""R2 - reference for source locations (15 lines of the specification).

line   = 1 + number of line terminators (LF, CR LF, CR - nothing else) before the offset
column = 1 + distance from the end of the last one
"""

from __future__ import annotations

import re

_LT = re.compile(r"\r\n|\n|\r")

# characters str.splitlines() treats as line boundaries but GraphQL does not
PY_ONLY_TERMINATORS = "\x0b\x0c\x1c\x1d\x1e\x85\u2028\u2029"


def loc(text: str, k: int) -> tuple[int, int]:
    line, last, i, n = 1, 0, 0, len(text)
    while i < k:
        c = text[i]
        if c == "\r":
            i += 2 if i + 1 < n and text[i + 1] == "\n" else 1
            line += 1
            last = i
        elif c == "\n":
            i += 1
            line += 1
            last = i
        else:
            i += 1
    return line, k - last + 1


def inside_crlf(text: str, k: int) -> bool:
    return 0 < k < len(text) and text[k - 1] == "\r" and text[k] == "\n"


def split_lines(text: str) -> list[str]:
    return _LT.split(text)


def offset_class(text: str, k: int) -> str:
    before = text[:k]
    if any(c in before for c in PY_ONLY_TERMINATORS):
        return "non-graphql-terminator-before-offset"
    if k > 0 and text[k - 1] in "\n\r":
        return "offset-at-line-start"
    if "\n" in before or "\r" in before:
        return "after-line-terminator"
    return "first-line"
