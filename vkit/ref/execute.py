"""R5 - the specification's ExecuteRequest, on G1 document trees, schema models and a data oracle.

No graphql-core code.  Pieces:
  Oracle            deterministic lazy data graph: raw(source record, type, field, args) -> raw value
                    (also used by the harness resolvers, so both executors see the same data)
  coerce_variables  CoerceVariableValues (R4)
  execute           ExecuteRequest -> {"data", "error_paths", "calls"}  (ordered dicts, no caching)
"""

from __future__ import annotations

import hashlib
import json

from vkit.gen.g2 import BUILTIN, as_model, is_nn, named, nullable
from vkit.ref import coerce as R4

INVALID = R4.INVALID


class Raise:
    """Marker: the resolver raises this exception."""

    def __init__(self, message):
        self.message = message


class FieldError(Exception):
    def __init__(self, path):
        self.path = path


def H(*parts):
    s = json.dumps(parts, sort_keys=True, default=repr)
    return int.from_bytes(hashlib.blake2b(s.encode(), digest_size=8).digest(), "big")


class Oracle:
    """Deterministic data: every (source id, field, args) has one raw value, fixed by the plan."""

    def __init__(self, m, seed=0, fault_density=0, fault_kinds=("null", "raise", "wrongkind", "badtype"),
                 null_density=6):
        self.m = as_model(m)
        self.seed = seed
        self.fault_density = fault_density  # faults per 256 field resolutions
        self.fault_kinds = list(fault_kinds)
        self.null_density = null_density    # natural nulls per 256 nullable positions
        self.planted = {}                   # (source id, field, args) -> fault kind handed out

    def root(self, tname):
        return {"__typename": tname, "__id": 0, "__depth": 0}

    def field_type(self, tname, fname):
        t = self.m.get(tname)
        return next(f["type"] for f in t["fields"] if f["name"] == fname)

    def raw(self, src, tname, fname, args):
        """Raw resolver result for field fname of object type tname on record src."""
        ftype = self.field_type(tname, fname)
        if not isinstance(src, dict):
            src = {"__id": "payload:" + repr(src), "__depth": 0}  # any value can be a source event
        h = H(self.seed, src.get("__id"), fname, _canon(args))
        fault = None
        if self.fault_density and (h >> 8) % 256 < self.fault_density:
            fault = self.fault_kinds[(h >> 20) % len(self.fault_kinds)]
        key = (src.get("__id"), fname, _canon(args))
        if fault == "raise":
            self.planted[key] = fault
            return Raise(f"boom {fname}")
        if fault == "null":
            self.planted[key] = fault
            return None
        if fault == "wrongkind":
            v = self._wrong_kind(ftype)
            if v is not None:
                self.planted[key] = fault
                return v
        if fault == "badtype" and self.m.kind(named(ftype)) in ("interface", "union"):
            self.planted[key] = fault
            return self._value(ftype, h, src.get("__depth", 0), bad_type=True)
        return self._value(ftype, h, src.get("__depth", 0))

    def _wrong_kind(self, t):
        tt = nullable(t) if is_nn(t) else t
        if not isinstance(tt, str):
            return 5  # not iterable
        if tt == "Int":
            return "not an int"
        if tt == "Float":
            return "not a float"
        if tt == "Boolean":
            return "maybe"
        if self.m.kind(tt) == "enum":
            return "__NOT_A_VALUE"
        return None

    def _value(self, t, h, depth, top=True, bad_type=False):
        if is_nn(t):
            return self._nonnull_value(t[1], h, depth, bad_type)
        # natural null at a nullable position (conforming data)
        if (h >> 3) % 256 < self.null_density:
            return None
        return self._nonnull_value(t, h, depth, bad_type)

    def _nonnull_value(self, t, h, depth, bad_type=False):
        m = self.m
        if not isinstance(t, str):  # list
            n = (h >> 11) % 4 if depth < 6 else 0
            inner = t[1]
            out = []
            for i in range(n):
                hi = H(h, i)
                if is_nn(inner):
                    out.append(self._nonnull_value(inner[1], hi, depth, bad_type))
                else:
                    out.append(self._value(inner, hi, depth, False, bad_type))
            return out
        k = m.kind(t)
        if t == "Int":
            return (h >> 13) % 2001 - 1000
        if t == "Float":
            return ((h >> 13) % 2001 - 1000) / 4
        if t == "String":
            return "s" + str((h >> 13) % 1000)
        if t == "Boolean":
            return bool((h >> 13) & 1)
        if t == "ID":
            return str((h >> 13) % 1000) if (h >> 5) & 1 else (h >> 13) % 1000
        if k == "enum":
            names = [v["name"] for v in m.get(t)["values"]]
            return names[(h >> 13) % len(names)]
        if k == "scalar":
            return [1, "x", {"k": [1, None]}, 2.5, True][(h >> 13) % 5]
        if k in ("object", "interface", "union"):
            poss = m.possible(t)
            if bad_type or not poss:
                others = [o["name"] for o in m["objects"] if o["name"] not in poss]
                tn = others[(h >> 17) % len(others)] if others and (h >> 16) & 1 else "NoSuchType"
            else:
                tn = poss[(h >> 17) % len(poss)]
            return {"__typename": tn, "__id": H(h, "id") % 10**9, "__depth": depth + 1}
        raise ValueError(t)


def _norm(v):
    """Canonical form of coerced argument values (3.0 and 3 are the same Float)."""
    if isinstance(v, float) and v == int(v) and abs(v) < 2**53:
        return int(v)
    if isinstance(v, dict):
        return {k: _norm(x) for k, x in v.items()}
    if isinstance(v, (list, tuple)):
        return [_norm(x) for x in v]
    return v


def _canon(args):
    return json.dumps(_norm(args), sort_keys=True, default=repr)


# ------------------------------------------------------------------------------------------
# variables


def coerce_variables(m, vardefs, values):
    """vardefs: {name: {"t", "default": literal tree|None}}; returns dict or INVALID."""
    out = {}
    for name, d in vardefs.items():
        t = d["t"]
        if name not in values:
            if d["default"] is not None:
                v = R4.coerce_literal(m, t, d["default"])
                if v is INVALID:
                    return INVALID
                out[name] = v
            elif is_nn(t):
                return INVALID
            continue
        v = values[name]
        if v is None and is_nn(t):
            return INVALID
        r = R4.coerce_value(m, t, v)
        if r is INVALID:
            return INVALID
        out[name] = r
    return out


def coerce_literal_with_vars(m, t, lit, variables):
    """Literal coercion at an argument or input-field position with variables (spec 'CoerceArgumentValues'
    and input object coercion rule for variables).  Returns value, INVALID, or ABSENT."""
    m = as_model(m)
    k = lit["k"]
    if k == "var":
        if lit["n"] not in variables:
            return ABSENT
        v = variables[lit["n"]]
        if v is None and is_nn(t):
            return INVALID
        return v
    if is_nn(t):
        if k == "null":
            return INVALID
        return coerce_literal_with_vars(m, t[1], lit, variables)
    if k == "null":
        return None
    if not isinstance(t, str):
        if k == "list":
            out = []
            for x in lit["vs"]:
                r = coerce_literal_with_vars(m, t[1], x, variables)
                if r is ABSENT:
                    # a missing variable inside a list is null (invalid for non-null items)
                    if is_nn(t[1]):
                        return INVALID
                    r = None
                if r is INVALID:
                    return INVALID
                out.append(r)
            return out
        r = coerce_literal_with_vars(m, t[1], lit, variables)
        if r is ABSENT or r is INVALID:
            return INVALID if r is INVALID else ABSENT
        return [r]
    if m.kind(t) == "input":
        if k != "obj":
            return INVALID
        io = m.get(t)
        fields = {f["name"]: f for f in io["fields"]}
        provided = {}
        for n, x in lit["fs"]:
            if n not in fields:
                return INVALID
            provided[n] = x
        out = {}
        for n, f in fields.items():
            r = ABSENT
            if n in provided:
                r = coerce_literal_with_vars(m, f["type"], provided[n], variables)
                if r is INVALID:
                    return INVALID
            if r is ABSENT:
                if f["default"] is not None:
                    d = R4.coerce_value(m, f["type"], f["default"][1])
                    if d is INVALID:
                        return INVALID
                    out[n] = d
                elif is_nn(f["type"]):
                    return INVALID
                continue
            out[n] = r
        if io["oneof"]:
            if len(provided) != 1 or len(out) != 1 or next(iter(out.values())) is None:
                return INVALID
        return out
    if R4.has_var(lit):
        if m.kind(t) == "scalar" and t not in BUILTIN:
            return _untyped_with_vars(lit, variables)  # variables are replaced, then the scalar parses
        return INVALID
    return R4.coerce_literal(m, t, lit)


AMBIGUOUS = [0]  # counts unbound variables met inside custom scalar literals (scalar-defined meaning)


def _untyped_with_vars(lit, variables):
    k = lit["k"]
    if k == "var":
        if lit["n"] not in variables:
            AMBIGUOUS[0] += 1
        return variables.get(lit["n"], ABSENT)
    if k == "list":
        out = []
        for x in lit["vs"]:
            r = _untyped_with_vars(x, variables)
            out.append(None if r is ABSENT else r)
        return out
    if k == "obj":
        out = {}
        for n, x in lit["fs"]:
            r = _untyped_with_vars(x, variables)
            if r is not ABSENT:
                out[n] = r
        return out
    return R4.untyped(lit)


ABSENT = type("Absent", (), {"__repr__": lambda s: "ABSENT"})()


def coerce_arguments(m, argdefs, args, variables):
    """CoerceArgumentValues. args: [[name, literal]]; returns dict or INVALID."""
    given = {n: v for n, v in args}
    out = {}
    for a in argdefs:
        name, t = a["name"], a["type"]
        r = ABSENT
        if name in given:
            r = coerce_literal_with_vars(m, t, given[name], variables)
            if r is INVALID:
                return INVALID
        if r is ABSENT:
            if a["default"] is not None:
                d = R4.coerce_value(m, t, a["default"][1])
                if d is INVALID:
                    return INVALID
                out[name] = d
            elif is_nn(t):
                return INVALID
            continue
        out[name] = r
    return out


# ------------------------------------------------------------------------------------------
# execution


def _included(sel, variables):
    for d in sel.get("dirs") or []:
        if d["n"] not in ("skip", "include"):
            continue
        arg = next((v for n, v in d["args"] if n == "if"), None)
        if arg is None:
            continue
        val = variables.get(arg["n"]) if arg["k"] == "var" else arg.get("v")
        if d["n"] == "skip" and val is True:
            return False
        if d["n"] == "include" and val is not True:
            return False
    return True


def _applies(m, cond, obj):
    if cond == obj:
        return True
    return obj in m.possible(cond) and m.kind(cond) in ("interface", "union")


def collect_fields(m, frags, obj, selections, variables, visited, out):
    for s in selections:
        if not _included(s, variables):
            continue
        if s["k"] == "field":
            out.setdefault(s["alias"] or s["n"], []).append(s)
        elif s["k"] == "inline":
            if s["on"] is None or _applies(m, s["on"], obj):
                collect_fields(m, frags, obj, s["sel"], variables, visited, out)
        else:
            if s["n"] in visited:
                continue
            visited.add(s["n"])
            f = frags.get(s["n"])
            if f is not None and _applies(m, f["on"], obj):
                collect_fields(m, frags, obj, f["sel"], variables, visited, out)
    return out


class Executor:
    def __init__(self, m, doc_tree, oracle, propagate=True):
        self.m = as_model(m)
        self.frags = {d["n"]: d for d in doc_tree["defs"] if d["k"] == "frag"}
        self.ops = [d for d in doc_tree["defs"] if d["k"] == "op"]
        self.oracle = oracle
        self.propagate = propagate
        self.error_paths = []
        self.calls = []  # (path, type.field, args)
        self.types = {}  # response path -> runtime object type of the value there
        self.arg_errors = []  # (path, field def, argument literals) where CoerceArgumentValues failed

    def run(self, op_name, vardefs, raw_variables):
        op = next((o for o in self.ops if op_name is None or o.get("n") == op_name), None)
        variables = coerce_variables(self.m, vardefs, raw_variables)
        if variables is INVALID:
            return {"request_error": True}
        self.variables = variables
        amb0 = AMBIGUOUS[0]
        kind = "query" if op.get("short") else op["op"]
        root = self.m[kind]
        src = self.oracle.root(root)
        try:
            data = self.exec_selection_set(root, src, [op["sel"]], ())
        except FieldError:
            data = None
        return {"request_error": False, "data": data, "error_paths": self.error_paths,
                "calls": self.calls, "types": self.types, "arg_errors": self.arg_errors,
                "variables": variables, "ambiguous": AMBIGUOUS[0] != amb0}

    def exec_selection_set(self, obj, src, selection_sets, path):
        grouped = {}
        visited = set()
        for ss in selection_sets:
            collect_fields(self.m, self.frags, obj, ss, self.variables, visited, grouped)
        result = {}
        for key, nodes in grouped.items():
            fname = nodes[0]["n"]
            if fname == "__typename":
                result[key] = obj
                continue
            fdef = next((f for f in self.m.get(obj)["fields"] if f["name"] == fname), None)
            if fdef is None:
                continue
            fpath = path + (key,)
            try:
                result[key] = self.exec_field(obj, src, fdef, nodes, fpath)
            except FieldError:
                if is_nn(fdef["type"]) and self.propagate:
                    raise
                result[key] = None
        return result

    def exec_field(self, obj, src, fdef, nodes, path):
        args = coerce_arguments(self.m, fdef["args"], nodes[0]["args"], self.variables)
        if args is INVALID:
            self.arg_errors.append((list(path), fdef, nodes[0]["args"]))
            self.error_paths.append(list(path))
            raise FieldError(path)
        self.calls.append((list(path), f"{obj}.{fdef['name']}", args))
        raw = self.oracle.raw(src, obj, fdef["name"], args)
        if isinstance(raw, Raise):
            self.error_paths.append(list(path))
            raise FieldError(path)
        return self.complete(fdef["type"], nodes, raw, path)

    def complete(self, t, nodes, value, path):
        if is_nn(t):
            r = self.complete(t[1], nodes, value, path)
            if r is None:
                if list(path) not in self.error_paths or True:
                    self.error_paths.append(list(path))
                raise FieldError(path)
            return r
        if value is None:
            return None
        if isinstance(value, Raise):
            self.error_paths.append(list(path))
            raise FieldError(path)
        if not isinstance(t, str):
            if not isinstance(value, list):
                self.error_paths.append(list(path))
                raise FieldError(path)
            out = []
            for i, x in enumerate(value):
                ipath = path + (i,)
                try:
                    out.append(self.complete(t[1], nodes, x, ipath))
                except FieldError:
                    if is_nn(t[1]) and self.propagate:
                        raise
                    out.append(None)
            return out
        k = self.m.kind(t)
        if k in ("scalar", "enum"):
            r = serialize(self.m, t, value)
            if r is INVALID:
                self.error_paths.append(list(path))
                raise FieldError(path)
            return r
        # composite
        rt = t
        if k in ("interface", "union"):
            rt = value.get("__typename") if isinstance(value, dict) else None
            if rt not in self.m.possible(t):
                self.error_paths.append(list(path))
                raise FieldError(path)
        sets = [n["sel"] for n in nodes if n.get("sel")]
        self.types[tuple(path)] = rt
        return self.exec_selection_set(rt, value, sets, path)


def serialize(m, t, v):
    """Result coercion restricted to the unambiguous value classes the oracle emits."""
    k = m.kind(t)
    if k == "enum":
        return v if isinstance(v, str) and v in [x["name"] for x in m.get(t)["values"]] else INVALID
    if t == "Int":
        if isinstance(v, bool) or not isinstance(v, int):
            return INVALID
        return v if R4.INT_MIN <= v <= R4.INT_MAX else INVALID
    if t == "Float":
        if isinstance(v, bool) or not isinstance(v, (int, float)):
            return INVALID
        return v
    if t == "String":
        return v if isinstance(v, str) else INVALID
    if t == "Boolean":
        return v if isinstance(v, bool) else INVALID
    if t == "ID":
        if isinstance(v, str):
            return v
        if isinstance(v, int) and not isinstance(v, bool):
            return str(v)
        return INVALID
    return v


def execute(m, doc_tree, op_name, vardefs, raw_variables, oracle, propagate=True):
    return Executor(m, doc_tree, oracle, propagate).run(op_name, vardefs, raw_variables)
