"""R6 - FieldsInSetCanMerge / SameResponseShape, a literal transcription of the specification
(section 5.3.2), over G1 document trees and schema models.  Exponential, no memoisation.

conflicts(model, doc_tree) -> (bool conflict found, bool had_unknown_fields)
"""

from __future__ import annotations

import json

from vkit.gen.g2 import as_model, is_nn, named


class _Ctx:
    def __init__(self, m, tree):
        self.m = as_model(m)
        self.frags = {d["n"]: d for d in tree["defs"] if d["k"] == "frag"}
        self.unknown = False
        self.steps = 0


def _field_type(ctx, parent, fname):
    if fname == "__typename":
        return ["nn", "String"]
    k = ctx.m.kind(parent)
    if k in ("object", "interface"):
        for f in ctx.m.get(parent)["fields"]:
            if f["name"] == fname:
                return f["type"]
    ctx.unknown = True
    return None


def _fields_in(ctx, parent, selections, visited, out):
    """All (parent type, field selection) in a selection set, fragments expanded."""
    for s in selections:
        if s["k"] == "field":
            out.append((parent, s))
        elif s["k"] == "inline":
            _fields_in(ctx, s["on"] or parent, s["sel"], visited, out)
        else:
            if s["n"] in visited:
                continue
            visited.add(s["n"])
            f = ctx.frags.get(s["n"])
            if f is not None:
                _fields_in(ctx, f["on"], f["sel"], visited, out)
    return out


def _canon_value(v):
    k = v["k"]
    if k == "obj":
        return ["obj", sorted([[n, _canon_value(x)] for n, x in v["fs"]], key=lambda p: p[0])]
    if k == "list":
        return ["list", [_canon_value(x) for x in v["vs"]]]
    if k == "str":
        from vkit.gen.g1 import raw_to_value

        return ["str", raw_to_value(v["raw"]) if "raw" in v else v["v"]]
    return [k, v.get("v", v.get("n"))]


def _same_args(a, b):
    ca = sorted([[n, _canon_value(v)] for n, v in a["args"]], key=lambda p: p[0])
    cb = sorted([[n, _canon_value(v)] for n, v in b["args"]], key=lambda p: p[0])
    return json.dumps(ca) == json.dumps(cb)


def _by_name(pairs):
    groups = {}
    for parent, s in pairs:
        groups.setdefault(s["alias"] or s["n"], []).append((parent, s))
    return groups


def same_response_shape(ctx, pa, a, pb, b):
    ctx.steps += 1
    if ctx.steps > 200000:
        raise TimeoutError
    ta, tb = _field_type(ctx, pa, a["n"]), _field_type(ctx, pb, b["n"])
    if ta is None or tb is None:
        return True
    while True:
        if is_nn(ta) or is_nn(tb):
            if not (is_nn(ta) and is_nn(tb)):
                return False
            ta, tb = ta[1], tb[1]
        if not isinstance(ta, str) or not isinstance(tb, str):
            if isinstance(ta, str) or isinstance(tb, str):
                return False
            ta, tb = ta[1], tb[1]
            continue
        break
    ka, kb = ctx.m.kind(ta), ctx.m.kind(tb)
    if ka in ("scalar", "enum") or kb in ("scalar", "enum"):
        return ta == tb
    merged = []
    _fields_in(ctx, ta, a["sel"] or [], set(), merged)
    _fields_in(ctx, tb, b["sel"] or [], set(), merged)
    for _name, group in _by_name(merged).items():
        for i in range(len(group)):
            for j in range(i + 1, len(group)):
                if not same_response_shape(ctx, group[i][0], group[i][1], group[j][0], group[j][1]):
                    return False
    return True


def fields_in_set_can_merge(ctx, pairs):
    for _name, group in _by_name(pairs).items():
        for i in range(len(group)):
            for j in range(i + 1, len(group)):
                (pa, a), (pb, b) = group[i], group[j]
                if not same_response_shape(ctx, pa, a, pb, b):
                    return False
                if pa == pb or ctx.m.kind(pa) != "object" or ctx.m.kind(pb) != "object":
                    if a["n"] != b["n"] or not _same_args(a, b):
                        return False
                    ta, tb = _field_type(ctx, pa, a["n"]), _field_type(ctx, pb, b["n"])
                    merged = []
                    if ta is not None:
                        _fields_in(ctx, named(ta), a["sel"] or [], set(), merged)
                    if tb is not None:
                        _fields_in(ctx, named(tb), b["sel"] or [], set(), merged)
                    if not fields_in_set_can_merge(ctx, merged):
                        return False
    return True


def conflicts(m, tree):
    """True when some selection set of some operation or fragment definition cannot merge."""
    ctx = _Ctx(m, tree)
    mm = ctx.m
    found = False

    def visit_set(parent, selections):
        nonlocal found
        pairs = _fields_in(ctx, parent, selections, set(), [])
        if not fields_in_set_can_merge(ctx, pairs):
            found = True
        # nested selection sets are selection sets of the document too
        for s in selections:
            if s["k"] == "field" and s["sel"]:
                t = _field_type(ctx, parent, s["n"])
                if t is not None:
                    visit_set(named(t), s["sel"])
            elif s["k"] == "inline":
                visit_set(s["on"] or parent, s["sel"])

    for d in tree["defs"]:
        if d["k"] == "op":
            kind = "query" if d.get("short") else d["op"]
            if mm[kind]:
                visit_set(mm[kind], d["sel"])
        elif d["k"] == "frag":
            visit_set(d["on"], d["sel"])
    return found, ctx.unknown
