"""R9 - reference for the values a TypeInfo reports at every node of a traversal.

Recursive descent with an immutable context (no stacks, no enter/leave pairing): the context *inside*
a node is a pure function of the context of its parent and the node itself, so an unbalanced push/pop,
a value left behind by a skipped subtree or a slot that is not reset cannot be reproduced here.

Trusted base: ``GraphQLSchema.get_field / get_directive / get_root_type``, ``type_from_ast`` and the
type predicates (lookups only; C17-C20 check the schema objects themselves).

``expected(schema, doc)`` -> {id(node): observation}; an observation is the tuple produced by
``observe(type_info)`` - what a wrapped visitor sees in ``enter(node)`` (after TypeInfo entered the node)
and in ``leave(node)`` (before TypeInfo leaves it).
"""

from __future__ import annotations

import dataclasses

FIELDS = ("type", "parent_type", "input_type", "parent_input_type", "field_def", "default",
          "directive", "argument", "enum_value", "fragment_signature", "fragment_argument")


def _ident(x):
    from graphql.pyutils import Undefined

    if x is None:
        return None
    if x is Undefined:
        return "<Undefined>"
    return id(x)


def observe(ti):
    sig = ti.get_fragment_signature()
    return (str(ti.get_type()), str(ti.get_parent_type()), str(ti.get_input_type()),
            str(ti.get_parent_input_type()), _ident(ti.get_field_def()), _default_repr(ti.get_default_value()),
            _ident(ti.get_directive()), _ident(ti.get_argument()), _ident(ti.get_enum_value()),
            None if sig is None else id(sig.definition), _ident(ti.get_fragment_argument()))


def _default_repr(d):
    from graphql.pyutils import Undefined

    if d is Undefined:
        return "<Undefined>"
    if d is None:
        return None
    return id(d) if not isinstance(d, (int, float, str, bool)) else repr(d)


class Ctx:
    __slots__ = ("types", "parents", "inputs", "fields", "defaults", "directive", "argument",
                 "enum_value", "frag_sig", "frag_arg")

    def __init__(self, **kw):
        for k in self.__slots__:
            setattr(self, k, kw.get(k, () if k in ("types", "parents", "inputs", "fields", "defaults")
                                    else None))

    def with_(self, **kw):
        d = {k: getattr(self, k) for k in self.__slots__}
        d.update(kw)
        return Ctx(**d)

    def obs(self):
        top = lambda s: s[-1] if s else None  # noqa: E731
        return (str(top(self.types)), str(top(self.parents)), str(top(self.inputs)),
                str(self.inputs[-2] if len(self.inputs) > 1 else None), _ident(top(self.fields)),
                _default_repr(top(self.defaults)), _ident(self.directive), _ident(self.argument),
                _ident(self.enum_value),
                None if self.frag_sig is None else id(self.frag_sig[0]), _ident(self.frag_arg))


def expected(schema, doc):
    from graphql.language import ast as A
    from graphql.pyutils import Undefined
    from graphql.type import (get_named_type, get_nullable_type, is_composite_type, is_enum_type,
                              is_input_object_type, is_input_type, is_list_type, is_object_type,
                              is_output_type)
    from graphql.utilities import type_from_ast

    # fragment signatures of the document: name -> (definition, {variable name: definition node});
    # a later definition of the same name wins (dict semantics of the reference implementation)
    sigs = {}
    if isinstance(doc, A.DocumentNode):
        for d in doc.definitions:
            if isinstance(d, A.FragmentDefinitionNode):
                vd = {}
                for v in (d.variable_definitions or ()):
                    vd[v.variable.name.value] = v
                sigs[d.name.value] = (d, vd)
    out = {}

    def inp(t):
        return t if is_input_type(t) else None

    def outp(t):
        return t if is_output_type(t) else None

    def default_of(x):
        return x.default if x.default is not None else x.default_value

    def inside(node, c):
        top = lambda s: s[-1] if s else None  # noqa: E731
        if isinstance(node, A.SelectionSetNode):
            named = get_named_type(top(c.types))
            return c.with_(parents=c.parents + (named if is_composite_type(named) else None,))
        if isinstance(node, A.FieldNode):
            parent = top(c.parents)
            fd = schema.get_field(parent, node.name.value) if parent else None
            return c.with_(fields=c.fields + (fd,), types=c.types + (outp(fd.type) if fd else None,))
        if isinstance(node, A.DirectiveNode):
            return c.with_(directive=schema.get_directive(node.name.value))
        if isinstance(node, A.OperationDefinitionNode):
            root = schema.get_root_type(node.operation)
            return c.with_(types=c.types + (root if is_object_type(root) else None,))
        if isinstance(node, A.FragmentSpreadNode):
            return c.with_(frag_sig=sigs.get(node.name.value))
        if isinstance(node, (A.InlineFragmentNode, A.FragmentDefinitionNode)):
            tc = node.type_condition
            t = type_from_ast(schema, tc) if tc else get_named_type(top(c.types))
            return c.with_(types=c.types + (outp(t),))
        if isinstance(node, A.VariableDefinitionNode):
            return c.with_(inputs=c.inputs + (inp(type_from_ast(schema, node.type)),))
        if isinstance(node, A.FragmentArgumentNode):
            vd = c.frag_sig[1].get(node.name.value) if c.frag_sig else None
            t = type_from_ast(schema, vd.type) if vd else None
            return c.with_(frag_arg=vd, defaults=c.defaults + (Undefined,), inputs=c.inputs + (inp(t),))
        if isinstance(node, A.ArgumentNode):
            owner = c.directive or top(c.fields)
            ad = owner.args.get(node.name.value) if owner else None
            return c.with_(argument=ad, defaults=c.defaults + (default_of(ad) if ad else Undefined,),
                           inputs=c.inputs + (inp(ad.type) if ad else None,))
        if isinstance(node, A.ListValueNode):
            lt = get_nullable_type(top(c.inputs))
            it = lt.of_type if is_list_type(lt) else None
            return c.with_(defaults=c.defaults + (Undefined,), inputs=c.inputs + (inp(it),))
        if isinstance(node, A.ObjectFieldNode):
            ot = get_named_type(top(c.inputs))
            f = ot.fields.get(node.name.value) if is_input_object_type(ot) else None
            return c.with_(defaults=c.defaults + (default_of(f) if f else Undefined,),
                           inputs=c.inputs + (inp(f.type) if f else None,))
        if isinstance(node, A.EnumValueNode):
            et = get_named_type(top(c.inputs))
            return c.with_(enum_value=et.values.get(node.value) if is_enum_type(et) else None)
        return c

    def walk(node, c):
        c2 = inside(node, c)
        out[id(node)] = c2.obs()
        for f in dataclasses.fields(node):
            if f.name == "loc":
                continue
            v = getattr(node, f.name)
            if isinstance(v, A.Node):
                walk(v, c2)
            elif isinstance(v, tuple):
                for x in v:
                    if isinstance(x, A.Node):
                        walk(x, c2)

    walk(doc, Ctx())
    return out
