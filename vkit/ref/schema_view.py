"""Structural view of a GraphQLSchema, extracted by one reflection routine (used to compare two
schema objects independently of print_schema / find_schema_changes).  Orders are preserved."""

from __future__ import annotations

import math


def _norm(v):
    """NaN-safe, hashable-free normal form of a coerced default value."""
    if isinstance(v, float) and math.isnan(v):
        return "NaN"
    if isinstance(v, dict):
        return {k: _norm(x) for k, x in v.items()}
    if isinstance(v, (list, tuple)):
        return [_norm(x) for x in v]
    return v


def _default(iv):
    from graphql.pyutils import Undefined
    from graphql.utilities.coerce_input_value import coerce_default_value

    try:
        v = coerce_default_value(iv)
    except Exception as e:  # noqa: BLE001
        return ["error", type(e).__name__]
    if v is Undefined:
        return ["none"]
    return ["value", _norm(v)]


def _args(args):
    return [[n, str(a.type), a.description, a.deprecation_reason, _default(a)] for n, a in args.items()]


def view(schema):
    from graphql import (is_enum_type, is_input_object_type, is_interface_type, is_object_type,
                         is_scalar_type, is_specified_directive, is_specified_scalar_type,
                         is_union_type)

    out = {"roots": {"query": getattr(schema.query_type, "name", None),
                     "mutation": getattr(schema.mutation_type, "name", None),
                     "subscription": getattr(schema.subscription_type, "name", None)},
           "description": schema.description, "types": [], "directives": []}
    for name, t in schema.type_map.items():
        if name.startswith("__") or is_specified_scalar_type(t):
            continue
        if is_scalar_type(t):
            out["types"].append(["scalar", name, t.description, t.specified_by_url])
        elif is_enum_type(t):
            out["types"].append(["enum", name, t.description,
                                 [[n, v.description, v.deprecation_reason] for n, v in t.values.items()]])
        elif is_input_object_type(t):
            out["types"].append(["input", name, t.description, bool(t.is_one_of), _args(t.fields)])
        elif is_object_type(t) or is_interface_type(t):
            out["types"].append(["object" if is_object_type(t) else "interface", name, t.description,
                                 [i.name for i in t.interfaces],
                                 [[n, str(f.type), f.description, f.deprecation_reason, _args(f.args)]
                                  for n, f in t.fields.items()]])
        elif is_union_type(t):
            out["types"].append(["union", name, t.description, [m.name for m in t.types]])
    for d in schema.directives:
        if is_specified_directive(d):
            continue
        out["directives"].append([d.name, d.description, bool(d.is_repeatable),
                                  [l.name for l in d.locations], _args(d.args),
                                  getattr(d, "deprecation_reason", None)])
    return out


def diff(a, b, path=""):
    """First difference between two views (None when equal)."""
    if a == b:
        return None
    if isinstance(a, dict) and isinstance(b, dict):
        for k in a:
            if k not in b:
                return f"{path}/{k}: missing"
            d = diff(a[k], b[k], f"{path}/{k}")
            if d:
                return d
        return f"{path}: extra keys {sorted(set(b) - set(a))}"
    if isinstance(a, list) and isinstance(b, list):
        if len(a) != len(b):
            return f"{path}: length {len(a)} != {len(b)}: {str(a)[:150]} vs {str(b)[:150]}"
        for i, (x, y) in enumerate(zip(a, b)):
            label = x[1] if isinstance(x, list) and len(x) > 1 and isinstance(x[1], str) else (
                x[0] if isinstance(x, list) and x and isinstance(x[0], str) else i)
            d = diff(x, y, f"{path}/{label}")
            if d:
                return d
    return f"{path}: {a!r} != {b!r}"
