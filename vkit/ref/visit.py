"""R3 - reference AST traversal (recursive, reflection over dataclass fields).

Trusted base: AST node classes are dataclasses; a parsed tree carries ``loc`` so that the
document order of a node's children is the order of their start offsets.  QUERY_DOCUMENT_KEYS
is *not* used.

A script maps (phase, preorder index) -> action with action in
  idle | skip | break | remove | replace | replace_str
``replace`` = same-kind node differing in one leaf and sharing its children.
"""

from __future__ import annotations

import dataclasses

REMOVED = object()


class Break(Exception):
    pass


def _is_node(x):
    from graphql.language.ast import Node

    return isinstance(x, Node)


def ordered_children(node, twin):
    """[(field name, value, twin value)] for node-valued fields, in source order of the twin."""
    items = []
    for f in dataclasses.fields(node):
        if f.name == "loc":
            continue
        v = getattr(node, f.name)
        tv = getattr(twin, f.name)
        if _is_node(v):
            items.append((tv.loc.start, f.name, v, tv))
        elif isinstance(v, tuple) and v and all(_is_node(x) for x in v):
            items.append((tv[0].loc.start, f.name, v, tv))
    items.sort(key=lambda t: t[0])
    return [(n, v, tv) for _p, n, v, tv in items]


def preorder(root, twin):
    """List of nodes in depth-first document order."""
    out = []

    def walk(n, t):
        out.append(n)
        for _name, v, tv in ordered_children(n, t):
            if isinstance(v, tuple):
                for c, tc in zip(v, tv):
                    walk(c, tc)
            else:
                walk(v, tv)

    walk(root, twin)
    return out


def copy_with_change(node):
    """Same-kind replacement sharing children, differing in one leaf when the kind has one."""
    from graphql.language import ast as A

    if isinstance(node, (A.NameNode, A.EnumValueNode)):
        return dataclasses.replace(node, value=node.value + "_r")
    if isinstance(node, (A.IntValueNode, A.FloatValueNode)):
        return dataclasses.replace(node, value=node.value + "0")
    if isinstance(node, A.StringValueNode):
        return dataclasses.replace(node, value=node.value + "r")
    if isinstance(node, A.BooleanValueNode):
        return dataclasses.replace(node, value=not node.value)
    return dataclasses.replace(node)


_SNIPPETS = {}


def other_kind(node):
    """A replacement of a *different* kind that may stand where ``node`` stands (parsed with locations, so it
    is its own twin), or None when the position admits one kind only."""
    from graphql.language import ast as A
    from graphql.language import parse, parse_type, parse_value

    if not _SNIPPETS:
        sels = parse("{ ... on R { r1 r2 } r(a: 1) { s } }").definitions[0].selection_set.selections
        _SNIPPETS.update(inline=sels[0], field=sels[1], list_value=parse_value("[7, {k: $r}]"),
                         int_value=parse_value("7"), list_type=parse_type("[R!]"), named_type=parse_type("R"))
    if isinstance(node, A.InlineFragmentNode):
        return _SNIPPETS["field"]
    if isinstance(node, (A.FieldNode, A.FragmentSpreadNode)):
        return _SNIPPETS["inline"]
    if isinstance(node, (A.ListValueNode, A.ObjectValueNode)):
        return _SNIPPETS["int_value"]
    if isinstance(node, A.ValueNode):
        return _SNIPPETS["list_value"]
    if isinstance(node, A.NamedTypeNode):
        return _SNIPPETS["list_type"]
    if isinstance(node, (A.ListTypeNode, A.NonNullTypeNode)):
        return _SNIPPETS["named_type"]
    return None


def ref_visit(root, twin, script, id_map):
    """Expected (log, result, broke) of visiting ``root`` with ``script``."""
    log = []

    def rv(node, tw, key, parent_desc, path, cl):
        idx = id_map.get(id(node), -1)
        anc = max(0, cl - 1)
        kind = node.kind
        log.append(("enter", kind, key, path, parent_desc, anc))
        act = script.get(("enter", idx), "idle")
        cur = node
        if act == "break":
            raise Break
        if act == "skip":
            return node
        if act == "remove":
            return REMOVED
        if act == "replace_str":
            return "X"
        if act == "replace":
            cur = copy_with_change(node)
        if act == "replace_kind":
            other = other_kind(node)
            if other is None:
                cur = copy_with_change(node)
            else:
                cur = tw = other
                kind = cur.kind  # the replacement is traversed (and left) as what it is
        edits = {}
        for fname, val, tval in ordered_children(cur, tw):
            if isinstance(val, tuple):
                new = []
                changed = False
                for i, (c, tc) in enumerate(zip(val, tval)):
                    r = rv(c, tc, i, "list", path + (fname, i), cl + 2)
                    if r is REMOVED:
                        changed = True
                    else:
                        changed = changed or r is not c
                        new.append(r)
                if changed:
                    edits[fname] = tuple(new)
            else:
                r = rv(val, tval, fname, kind, path + (fname,), cl + 1)
                if r is REMOVED:
                    edits[fname] = None
                elif r is not val:
                    edits[fname] = r
        if edits:
            cur = dataclasses.replace(cur, **edits)
        log.append(("leave", kind, key, path, parent_desc, anc))
        act = script.get(("leave", idx), "idle")
        if act == "break":
            raise Break
        if act == "remove":
            return REMOVED
        if act == "replace":
            return copy_with_change(cur)
        if act == "replace_kind":
            return other_kind(cur) or copy_with_change(cur)
        if act == "replace_str":
            return "X"
        return cur

    try:
        result = rv(root, twin, None, None, (), 0)
        return log, result, False
    except Break:
        return log, None, True
