"""Response shape checker written from the specification (sections 6.3-6.4).

check(schema, document, operation, data, variables, runtime_type_of) -> list of problems.

For the runtime object types actually present, the response object must have exactly the response
keys CollectFields yields, in order; lists where list types, no null at non-null positions, leaf
kinds per scalar/enum.  ``runtime_type_of(abstract_type, data_obj, path)`` names the object type of
a value of abstract type (default: its "__typename" entry, which must then have been selected).

Uses graphql-core's *type objects* and parsed AST only as data (names, wrappers, fields); the
collection algorithm is written here.
"""

from __future__ import annotations


def _collect(schema, fragments, obj_type, selection_set, variables, visited, out):
    from graphql import is_abstract_type
    from graphql.language import ast as A

    for sel in selection_set.selections:
        if not _included(sel, variables):
            continue
        if isinstance(sel, A.FieldNode):
            key = sel.alias.value if sel.alias else sel.name.value
            out.setdefault(key, []).append(sel)
        elif isinstance(sel, A.InlineFragmentNode):
            tc = sel.type_condition
            if tc is None or _applies(schema, tc.name.value, obj_type):
                _collect(schema, fragments, obj_type, sel.selection_set, variables, visited, out)
        elif isinstance(sel, A.FragmentSpreadNode):
            name = sel.name.value
            if name in visited:
                continue
            visited.add(name)
            frag = fragments.get(name)
            if frag is None:
                continue
            if _applies(schema, frag.type_condition.name.value, obj_type):
                _collect(schema, fragments, obj_type, frag.selection_set, variables, visited, out)
    return out


def _applies(schema, cond_name, obj_type):
    from graphql import is_abstract_type

    cond = schema.get_type(cond_name)
    if cond is None:
        return False
    if cond is obj_type:
        return True
    return is_abstract_type(cond) and schema.is_sub_type(cond, obj_type)


def _included(node, variables):
    from graphql.language import ast as A

    for d in node.directives or ():
        n = d.name.value
        if n not in ("skip", "include"):
            continue
        arg = next((a for a in d.arguments or () if a.name.value == "if"), None)
        if arg is None:
            continue
        v = arg.value
        if isinstance(v, A.VariableNode):
            val = variables.get(v.name.value)
        else:
            val = getattr(v, "value", None)
        if n == "skip" and val is True:
            return False
        if n == "include" and val is not True:
            return False
    return True


def check(schema, document, data, variables=None, operation_name=None, runtime_type_of=None,
          root_type=None):
    from graphql.language import ast as A

    variables = variables or {}
    fragments = {d.name.value: d for d in document.definitions
                 if isinstance(d, A.FragmentDefinitionNode)}
    ops = [d for d in document.definitions if isinstance(d, A.OperationDefinitionNode)]
    op = next((o for o in ops if operation_name is None or (o.name and o.name.value == operation_name)),
              None)
    if op is None:
        return ["operation not found"]
    root = root_type or {"query": schema.query_type, "mutation": schema.mutation_type,
                         "subscription": schema.subscription_type}[op.operation.value]
    probs = []
    _check_object(schema, fragments, root, [op.selection_set], data, variables, runtime_type_of, (),
                  probs)
    return probs


def _check_object(schema, fragments, obj_type, selection_sets, data, variables, rto, path, probs):
    if len(probs) > 5:
        return
    if not isinstance(data, dict):
        probs.append(f"{_p(path)}: expected an object for type {obj_type.name}, got {type(data).__name__}")
        return
    grouped = {}
    visited = set()
    for ss in selection_sets:
        _collect(schema, fragments, obj_type, ss, variables, visited, grouped)
    if list(data.keys()) != list(grouped.keys()):
        probs.append(f"{_p(path)}: response keys {list(data.keys())} but the selection set on "
                     f"{obj_type.name} prescribes {list(grouped.keys())}")
        return
    for key, nodes in grouped.items():
        fname = nodes[0].name.value
        if fname == "__typename":
            if data[key] != obj_type.name:
                probs.append(f"{_p(path + (key,))}: __typename {data[key]!r} on {obj_type.name}")
            continue
        fdef = _field_def(schema, obj_type, fname)
        if fdef is None:
            probs.append(f"{_p(path + (key,))}: no field {fname} on {obj_type.name}")
            continue
        _check_value(schema, fragments, fdef.type, nodes, data[key], variables, rto, path + (key,), probs)


def _field_def(schema, obj_type, fname):
    from graphql.type import SchemaMetaFieldDef, TypeMetaFieldDef

    if fname == "__schema" and obj_type is schema.query_type:
        return SchemaMetaFieldDef
    if fname == "__type" and obj_type is schema.query_type:
        return TypeMetaFieldDef
    return obj_type.fields.get(fname)


def _check_value(schema, fragments, t, nodes, v, variables, rto, path, probs):
    from graphql import (is_abstract_type, is_enum_type, is_list_type, is_non_null_type,
                         is_object_type, is_scalar_type)

    if is_non_null_type(t):
        if v is None:
            probs.append(f"{_p(path)}: null at non-null position of type {t}")
            return
        return _check_value(schema, fragments, t.of_type, nodes, v, variables, rto, path, probs)
    if v is None:
        return
    if is_list_type(t):
        if not isinstance(v, list):
            probs.append(f"{_p(path)}: expected a list for {t}, got {type(v).__name__}")
            return
        for i, x in enumerate(v):
            _check_value(schema, fragments, t.of_type, nodes, x, variables, rto, path + (i,), probs)
        return
    if is_scalar_type(t):
        ok = {"Int": lambda x: type(x) is int and -(2**31) <= x < 2**31,
              "Float": lambda x: isinstance(x, (int, float)) and not isinstance(x, bool),
              "String": lambda x: isinstance(x, str), "ID": lambda x: isinstance(x, str),
              "Boolean": lambda x: isinstance(x, bool)}.get(t.name, lambda x: True)
        if not ok(v):
            probs.append(f"{_p(path)}: {v!r} is not a {t.name}")
        return
    if is_enum_type(t):
        if v not in t.values:
            probs.append(f"{_p(path)}: {v!r} is not a value name of enum {t.name}")
        return
    if is_object_type(t):
        rt = t
    elif is_abstract_type(t):
        name = rto(t, v, path) if rto else (v.get("__typename") if isinstance(v, dict) else None)
        rt = schema.get_type(name) if name else None
        if rt is None or not is_object_type(rt) or not schema.is_sub_type(t, rt):
            probs.append(f"{_p(path)}: cannot tell the runtime type of a {t.name} value ({name!r})")
            return
    else:
        probs.append(f"{_p(path)}: unexpected type {t}")
        return
    sets = [n.selection_set for n in nodes if n.selection_set is not None]
    _check_object(schema, fragments, rt, sets, v, variables, rto, path, probs)


def _p(path):
    return "/".join(str(x) for x in path) or "<root>"
