"""R4 - input coercion written from the specification (section 3.x "Input Coercion").

Works on schema *models* (vkit.gen.g2) and JSON-like Python values / G1 literal trees.
No graphql-core code.  ``INVALID`` means "coercion raises a request error".
"""

from __future__ import annotations

import math

from vkit.gen.g2 import as_model, is_nn

INVALID = type("Invalid", (), {"__repr__": lambda s: "INVALID"})()
INT_MIN, INT_MAX = -(2**31), 2**31 - 1


_depth = [0]


def coerce_value(m, t, v):
    """Coerce external value v for input type t; INVALID when coercion raises."""
    _depth[0] += 1
    try:
        if _depth[0] > 60:
            return INVALID  # default value cycle: nothing finite satisfies it
        return _coerce_value(m, t, v)
    finally:
        _depth[0] -= 1


def _coerce_value(m, t, v):
    m = as_model(m)
    if is_nn(t):
        if v is None:
            return INVALID
        return coerce_value(m, t[1], v)
    if v is None:
        return None
    if not isinstance(t, str):  # list
        if isinstance(v, list):
            out = []
            for x in v:
                r = coerce_value(m, t[1], x)
                if r is INVALID:
                    return INVALID
                out.append(r)
            return out
        r = coerce_value(m, t[1], v)
        return INVALID if r is INVALID else [r]
    k = m.kind(t)
    if k == "input":
        return _coerce_input_object(m, m.get(t), v, coerce_value)
    if k == "enum":
        names = [x["name"] for x in m.get(t)["values"]]
        return v if isinstance(v, str) and v in names else INVALID
    return _coerce_scalar_value(t, k, v)


def _coerce_scalar_value(t, kind, v):
    if t == "Int":
        if isinstance(v, float) and math.isfinite(v) and v == int(v):
            v = int(v)  # an integral number is an integer input value (JSON has one number type)
        if isinstance(v, bool) or not isinstance(v, int):
            return INVALID
        return v if INT_MIN <= v <= INT_MAX else INVALID
    if t == "Float":
        if isinstance(v, bool) or not isinstance(v, (int, float)):
            return INVALID
        try:
            f = float(v)
        except OverflowError:
            return INVALID
        if isinstance(v, int) and f != v:
            return INVALID  # an integer that has no exact double would lose precision silently
        return f if math.isfinite(f) else INVALID
    if t == "String":
        return v if isinstance(v, str) else INVALID
    if t == "Boolean":
        return v if isinstance(v, bool) else INVALID
    if t == "ID":
        if isinstance(v, str):
            return v
        if isinstance(v, int) and not isinstance(v, bool):
            return str(v)
        if isinstance(v, float) and math.isfinite(v) and v == int(v):
            return str(int(v))
        return INVALID
    return v  # custom scalar: identity


def _coerce_input_object(m, io, v, rec):
    if not isinstance(v, dict):
        return INVALID
    fields = {f["name"]: f for f in io["fields"]}
    if any(k not in fields for k in v):
        return INVALID
    out = {}
    for name, f in fields.items():
        if name in v:
            r = rec(m, f["type"], v[name])
            if r is INVALID:
                return INVALID
            out[name] = r
        elif f["default"] is not None:
            r = coerce_value(m, f["type"], f["default"][1])
            if r is INVALID:
                return INVALID
            out[name] = r
        elif is_nn(f["type"]):
            return INVALID
    if io["oneof"]:
        if len(v) != 1 or next(iter(out.values()), None) is None or len(out) != 1:
            return INVALID
    return out


# ------------------------------------------------------------------------------------------
# const literals (G1 value trees: {"k": "int", "v": "1"} ...)


def untyped(lit):
    k = lit["k"]
    if k == "int":
        return int(lit["v"])
    if k == "float":
        return float(lit["v"])
    if k == "str":
        from vkit.gen.g1 import raw_to_value

        return raw_to_value(lit["raw"]) if "raw" in lit else lit["v"]
    if k == "bool":
        return lit["v"]
    if k == "null":
        return None
    if k == "enum":
        return lit["v"]
    if k == "list":
        return [untyped(x) for x in lit["vs"]]
    if k == "obj":
        return {n: untyped(x) for n, x in lit["fs"]}
    raise ValueError(k)


def has_var(lit):
    k = lit["k"]
    if k == "var":
        return True
    if k == "list":
        return any(has_var(x) for x in lit["vs"])
    if k == "obj":
        return any(has_var(x) for _n, x in lit["fs"])
    return False


def coerce_literal(m, t, lit):
    """Coercion of a *constant* literal."""
    m = as_model(m)
    k = lit["k"]
    if is_nn(t):
        if k == "null":
            return INVALID
        return coerce_literal(m, t[1], lit)
    if k == "null":
        return None
    if not isinstance(t, str):
        if k == "list":
            out = []
            for x in lit["vs"]:
                r = coerce_literal(m, t[1], x)
                if r is INVALID:
                    return INVALID
                out.append(r)
            return out
        r = coerce_literal(m, t[1], lit)
        return INVALID if r is INVALID else [r]
    kind = m.kind(t)
    if kind == "input":
        if k != "obj":
            return INVALID
        names = [n for n, _x in lit["fs"]]
        if len(set(names)) != len(names):
            return INVALID  # duplicate field names are not generated; kept for completeness
        return _coerce_input_object(m, m.get(t), dict((n, x) for n, x in lit["fs"]),
                                    lambda mm, tt, x: coerce_literal(mm, tt, x))
    if kind == "enum":
        names = [x["name"] for x in m.get(t)["values"]]
        return lit["v"] if k == "enum" and lit["v"] in names else INVALID
    if t == "Int":
        if k != "int":
            return INVALID
        v = int(lit["v"])
        return v if INT_MIN <= v <= INT_MAX else INVALID
    if t == "Float":
        if k not in ("int", "float"):
            return INVALID
        try:
            f = float(lit["v"])
        except OverflowError:
            return INVALID
        return f if math.isfinite(f) else INVALID
    if t == "String":
        return untyped(lit) if k == "str" else INVALID
    if t == "Boolean":
        return lit["v"] if k == "bool" else INVALID
    if t == "ID":
        if k == "str":
            return untyped(lit)
        if k == "int":
            return lit["v"]
        return INVALID
    return untyped(lit)  # custom scalar


def conforms(m, t, r):
    """Conformance predicate on a coercion *result* (independent validity check)."""
    m = as_model(m)
    if is_nn(t):
        return r is not None and conforms(m, t[1], r)
    if r is None:
        return True
    if not isinstance(t, str):
        return isinstance(r, list) and all(conforms(m, t[1], x) for x in r)
    k = m.kind(t)
    if k == "input":
        io = m.get(t)
        fields = {f["name"]: f for f in io["fields"]}
        if not isinstance(r, dict) or any(n not in fields for n in r):
            return False
        for n, f in fields.items():
            if n not in r:
                if is_nn(f["type"]) or f["default"] is not None:
                    return False
            elif not conforms(m, f["type"], r[n]):
                return False
        if io["oneof"] and (len(r) != 1 or next(iter(r.values())) is None):
            return False
        return True
    if k == "enum":
        return r in [x["name"] for x in m.get(t)["values"]]
    if t == "Int":
        return type(r) is int and INT_MIN <= r <= INT_MAX
    if t == "Float":
        return isinstance(r, (int, float)) and not isinstance(r, bool) and math.isfinite(r)
    if t in ("String", "ID"):
        return isinstance(r, str)
    if t == "Boolean":
        return isinstance(r, bool)
    return True
