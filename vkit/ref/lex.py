"""R1 - reference tokenizer written from the specification's lexical grammar.

Trusted base: Python ``re``.  No import from graphql.

tokens(text) -> (list[(kind, start, end, value)], error_position | None)

Kinds: the punctuators themselves ('!', '$', '&', '(', ')', '...', ':', '=', '@', '[', ']',
'{', '|', '}'), 'Name', 'Int', 'Float', 'String', 'BlockString', 'Comment'.  Comments are
Ignored by the grammar but are reported so that span checks can see them; callers filter.

SourceCharacter = any Unicode scalar value (current specification draft; the implementation
documents the same).  Surrogate code points are not source characters.
"""

from __future__ import annotations

import re

PUNCT = ["...", "!", "$", "&", "(", ")", ":", "=", "@", "[", "]", "{", "|", "}"]
_NAME = re.compile(r"[_A-Za-z][_0-9A-Za-z]*")
_INTPART = r"-?(?:0|[1-9][0-9]*)"
_LOOKAHEAD = r"(?![0-9.A-Za-z_])"
_FLOAT = re.compile(_INTPART + r"(?:\.[0-9]+(?:[eE][+-]?[0-9]+)?|[eE][+-]?[0-9]+)" + _LOOKAHEAD)
_INT = re.compile(_INTPART + _LOOKAHEAD)
_LT = re.compile(r"\r\n|\n|\r")
_HEX = "0123456789abcdefABCDEF"
_SIMPLE_ESC = {'"': '"', "\\": "\\", "/": "/", "b": "\b", "f": "\f", "n": "\n", "r": "\r",
               "t": "\t"}


def is_scalar(c: str) -> bool:
    o = ord(c)
    return o < 0xD800 or 0xE000 <= o <= 0x10FFFF


def block_string_value(raw: str) -> str:
    """The specification's BlockStringValue(rawValue) algorithm, literally."""
    lines = _LT.split(raw)
    common = None
    for line in lines[1:]:
        length = len(line)
        indent = 0
        while indent < length and line[indent] in " \t":
            indent += 1
        if indent < length and (common is None or indent < common):
            common = indent
    if common is not None:
        lines = [lines[0]] + [line[common:] for line in lines[1:]]
    while lines and all(c in " \t" for c in lines[0]):
        lines.pop(0)
    while lines and all(c in " \t" for c in lines[-1]):
        lines.pop()
    return "\n".join(lines)


class _Err(Exception):
    def __init__(self, pos):
        self.pos = pos


def _read_string(text: str, start: int):
    n = len(text)
    i = start + 1
    out = []
    while i < n:
        c = text[i]
        if c == '"':
            return ("String", start, i + 1, "".join(out))
        if c in "\r\n":
            raise _Err(i)
        if c == "\\":
            e = text[i + 1:i + 2]
            if e == "u":
                if text[i + 2:i + 3] == "{":
                    j = i + 3
                    while j < n and text[j] in _HEX:
                        j += 1
                    digits = text[i + 3:j]
                    # implementation limit mirrored from the reference implementation:
                    # at most 8 hex digits inside the braces
                    if not digits or len(digits) > 8 or text[j:j + 1] != "}":
                        raise _Err(i)
                    cp = int(digits, 16)
                    if cp > 0x10FFFF or 0xD800 <= cp <= 0xDFFF:
                        raise _Err(i)
                    out.append(chr(cp))
                    i = j + 1
                    continue
                h = text[i + 2:i + 6]
                if len(h) < 4 or any(x not in _HEX for x in h):
                    raise _Err(i)
                cp = int(h, 16)
                if 0xD800 <= cp <= 0xDBFF:
                    h2 = text[i + 8:i + 12]
                    if (text[i + 6:i + 8] == "\\u" and len(h2) == 4
                            and all(x in _HEX for x in h2)
                            and 0xDC00 <= int(h2, 16) <= 0xDFFF):
                        lo = int(h2, 16)
                        out.append(chr(0x10000 + ((cp - 0xD800) << 10) + (lo - 0xDC00)))
                        i += 12
                        continue
                    raise _Err(i)
                if 0xDC00 <= cp <= 0xDFFF:
                    raise _Err(i)
                out.append(chr(cp))
                i += 6
                continue
            if e in _SIMPLE_ESC and e != "":
                out.append(_SIMPLE_ESC[e])
                i += 2
                continue
            raise _Err(i)
        if not is_scalar(c):
            raise _Err(i)
        out.append(c)
        i += 1
    raise _Err(n)


def _read_block(text: str, start: int):
    n = len(text)
    i = start + 3
    raw = []
    while i < n:
        if text.startswith('"""', i):
            return ("BlockString", start, i + 3, block_string_value("".join(raw)))
        if text.startswith('\\"""', i):
            raw.append('"""')
            i += 4
            continue
        c = text[i]
        if not is_scalar(c):
            raise _Err(i)
        raw.append(c)
        i += 1
    raise _Err(n)


def tokens(text: str, coordinate: bool = False):
    """Maximal-munch tokenization. Returns (token list, None) or (prefix, error position)."""
    out = []
    i, n = 0, len(text)
    try:
        while i < n:
            c = text[i]
            if coordinate:
                if c in ".():@":
                    out.append((c, i, i + 1, None))
                    i += 1
                    continue
                m = _NAME.match(text, i)
                if m:
                    out.append(("Name", i, m.end(), m.group()))
                    i = m.end()
                    continue
                raise _Err(i)
            if c in "\ufeff\t ,\n\r":
                i += 1
                continue
            if c == "#":
                j = i + 1
                while j < n and text[j] not in "\r\n" and is_scalar(text[j]):
                    j += 1
                out.append(("Comment", i, j, text[i + 1:j]))
                if j < n and text[j] not in "\r\n":
                    raise _Err(j)
                i = j
                continue
            if c == '"':
                tok = _read_block(text, i) if text.startswith('"""', i) else _read_string(text, i)
                out.append(tok)
                i = tok[2]
                continue
            if text.startswith("...", i):
                out.append(("...", i, i + 3, None))
                i += 3
                continue
            if c in "!$&():=@[]{|}":
                out.append((c, i, i + 1, None))
                i += 1
                continue
            m = _NAME.match(text, i)
            if m:
                out.append(("Name", i, m.end(), m.group()))
                i = m.end()
                continue
            if c == "-" or c in "0123456789":
                m = _FLOAT.match(text, i)
                if m:
                    out.append(("Float", i, m.end(), m.group()))
                    i = m.end()
                    continue
                m = _INT.match(text, i)
                if m:
                    out.append(("Int", i, m.end(), m.group()))
                    i = m.end()
                    continue
                raise _Err(i)
            raise _Err(i)
    except _Err as e:
        return out, e.pos
    return out, None


def significant(toks):
    return [t for t in toks if t[0] != "Comment"]
