"""C06 - stopping early never hangs or leaks: work settles and sources are closed.

Generated incremental and plain requests run under the deterministic scheduler; the consumer stops at a
point owned by the schedule: aclose() of the payload stream after k payloads (k = 0: before the first
pull), AbortController.abort(reason) at a quiescent point (before the initial result or after payload k,
reason in {None, an exception, a non-exception value}), or never (resolver and source failures come from
the data oracle).  Invariants, all clock-free, each with its own signature:
  prompt-release   at the first quiescence after the stop the awaiting caller is done (no gate released)
  no-hang          exact hang detection at every point
  abort-outcome    before the initial result the caller gets AbortedGraphQLExecutionError, afterwards the
                   pending pull raises (the reason when it is an exception)
  no-task-leak     after the consumer followed the documented protocol and every harness gate was
                   released, no task is pending and no harness resolver is in flight
  sources-closed   every started async-generator source ran its finally exactly once
  hook             async_work_finished fired exactly once, with no resolver in flight and every started
                   source finalised at that instant
  no-unhandled     nothing reaches the loop's exception handler
"""

from __future__ import annotations

from checks import c02, c04
from vkit.harness import sq_drive
from vkit.core import Sub, Violation, given_run
from vkit.gen.choice import from_bytes
from vkit.harness.resolvers import AsyncPlan, Boom, make_async_resolvers
from vkit.harness.sched import Hang, Sched, StepLimit
from vkit.ref import execute as R5

ID = "C06"
RULE = (
    "C04's request domain (defer/stream documents, async plans with async-iterator sources, faults) plus "
    "plain async execution, x stop = {none, aclose after k in 0..3, abort before the initial result, abort "
    "after payload k} x abort reason in {None, exception, string} x early execution in {off, on} x 3 "
    "(thorough 8) schedules. Non-trivial: the stop lands while a gate is pending, a source is started and "
    "not exhausted, or a pull is parked. Distinct by hash of (request, plan, schedule, stop, early)."
)
ASSUMPTIONS = [
    "harness resolvers honour cancellation (they re-raise CancelledError)",
    "the consumer follows the documented protocol: it closes the stream it holds; after "
    "AbortedGraphQLExecutionError it awaits aborted_result and closes its subsequent_results",
    "pending harness gates are released before the leak check (the executor lets siblings of a failed field settle in the background by design)",
]


def run_stop(env, op_name, variables, oseed, density, plan, schedule, early, stop, mode):
    from inspect import isawaitable

    from graphql import ExecutionResult
    from graphql.execution import ExecutionHooks, execute, experimental_execute_incrementally
    from graphql.execution.aborted_graphql_execution_error import AbortedGraphQLExecutionError
    from graphql.pyutils import AbortController

    oracle = R5.Oracle(env.m, oseed, density)
    sched = Sched(schedule, max_steps=20000 if plan.long else 4000)
    events, log, sources = [], [], []
    stats = {"inflight": 0}
    resolve, resolve_type = make_async_resolvers(oracle, sched, plan, events, log, env.out_names,
                                                 sources=sources, stats=stats)
    kind = next(k for n, k in c02.env_ops(env) if n == op_name)
    controller = AbortController()
    hook_calls = []

    def hook(_info):
        hook_calls.append({"inflight": stats["inflight"],
                           "open_sources": sum(1 for s in sources if s["started"] and not s["finalized"]),
                           "at": len(sched.trace)})

    out = {"payloads": 0, "single": None, "end": None, "raised": None, "stop_done": False,
           "awaiting_library": False, "prompt_violation": None, "aborted_before_initial": False,
           "protocol_error": None, "stop_state": None}
    frozen = {"on": False}
    reason = {"none": None, "exc": Boom("abort reason"), "str": "stop it"}[stop.get("reason", "none")]

    def on_quiescent(s):
        if frozen["on"]:
            frozen["on"] = False
            closing = [g for g in s.pending_gates() if str(g[0]).startswith("close:")]
            if closing and not s.main_task.done() and out["awaiting_library"]:
                # the caller may be waiting for the asynchronous finalisation of a source: let it finish and
                # look again at the next quiescence
                for g in closing:
                    g[1].set_result(None)
                frozen["on"] = True
                return
            if not s.main_task.done() and out["awaiting_library"]:
                out["prompt_violation"] = (f"after {stop['kind']} the caller was still waiting at the next "
                                           f"quiescence; gates pending {[g[0] for g in s.pending_gates()][:4]}")

    sched.on_quiescent = on_quiescent

    def do_abort():
        out["stop_done"] = True
        out["stop_state"] = {"gates": len(sched.pending_gates()), "inflight": stats["inflight"],
                             "open_sources": sum(1 for s in sources if s["started"] and not s["finalized"]),
                             "awaiting": out["awaiting_library"], "payloads": out["payloads"]}
        frozen["on"] = True
        controller.abort(reason)

    if stop["kind"] == "abort":
        sched.add_action("abort", lambda: (not out["stop_done"]) and out["payloads"] >= stop["after"]
                         and (stop["after"] >= 0 or out["payloads"] == 0), do_abort)

    async def lib(awaitable):
        out["awaiting_library"] = True
        try:
            return await awaitable
        finally:
            out["awaiting_library"] = False

    async def main():
        kw = dict(root_value=oracle.root(env.m[kind]), variable_values=variables, operation_name=op_name,
                  field_resolver=resolve, type_resolver=resolve_type, abort_signal=controller.signal,
                  hooks=ExecutionHooks(async_work_finished=hook))
        try:
            if mode == "plain":
                r = execute(env.schema, env.doc, **kw)
            else:
                r = experimental_execute_incrementally(env.schema, env.doc, enable_early_execution=early, **kw)
            if isawaitable(r):
                r = await lib(r)
        except AbortedGraphQLExecutionError as e:
            out["aborted_before_initial"] = True
            out["end"] = "aborted"
            res = e.aborted_result
            try:
                if isawaitable(res):
                    res = await res
                sub = getattr(res, "subsequent_results", None)
                if sub is not None:
                    await sub.aclose()
            except Exception as e2:  # noqa: BLE001
                out["protocol_error"] = repr(e2)
            return
        except Exception as e:  # noqa: BLE001
            out["raised"] = e
            out["end"] = "raised-initial"
            return
        if isinstance(r, ExecutionResult):
            out["single"] = r
            out["end"] = "single"
            return
        it = r.subsequent_results
        while True:
            if stop["kind"] == "aclose" and out["payloads"] == stop["after"]:
                out["stop_done"] = True
                out["stop_state"] = {"gates": len(sched.pending_gates()), "inflight": stats["inflight"],
                                     "open_sources": sum(1 for s in sources if s["started"] and not s["finalized"]),
                                     "awaiting": True, "payloads": out["payloads"]}
                frozen["on"] = True
                await lib(it.aclose())
                out["end"] = "closed"
                return
            await sched.gate(f"pull:{out['payloads']}")
            try:
                p = await lib(it.__anext__())
            except StopAsyncIteration:
                out["end"] = "stop"
                return
            except Exception as e:  # noqa: BLE001
                out["raised"] = e
                out["end"] = "raised"
                try:
                    await it.aclose()
                except Exception as e2:  # noqa: BLE001
                    out["protocol_error"] = repr(e2)
                return
            out["payloads"] += 1
            if not p.has_next and False:
                return

    try:
        sched.run(main())
        out["trace"] = list(sched.trace)
        out["unhandled"] = list(sched.unhandled)
        sched.drain(release_all=False)
        out["inflight_quiescent"] = stats["inflight"]  # work that only ends when the outside world does
        ok = sched.drain(rounds=20000 if plan.long else 200)
        out["drained"] = ok
        out["tasks_left"] = [repr(t.get_coro())[:80] for t in sched.unfinished_tasks()]
        out["inflight_end"] = stats["inflight"]
        # snapshot now: closing the loop below runs shutdown_asyncgens(), which would finalise a source
        # the library forgot and so hide the leak
        out["sources"] = [dict(s) for s in sources]
        out["hook_calls"] = hook_calls
        out["reason"] = reason
        return out
    finally:
        sched.close()


def eval_run(env, sc, op_name, variables, oseed, density, plan_spec, schedule, early, stop, mode, case):
    vs = []
    lazy = "early" if early else "lazy"

    def bad(rel, detail, feats=None):
        f = {"relation": rel, "stop_kind": stop["kind"], "stop_after": stop.get("after"), "early": early,
             "mode": mode}
        f.update(feats or {})
        vs.append(Violation(("C06", rel, stop["kind"]), f"{detail}; stop {stop} {lazy} mode {mode}; query "
                            f"{env.text!r} oracle {(oseed, density)} plan {plan_spec} schedule {schedule}",
                            case, f))

    try:
        out = run_stop(env, op_name, variables, oseed, density, AsyncPlan(*plan_spec), schedule, early, stop,
                       mode)
    except Hang as h:
        bad("hang", str(h))
        return vs, None
    except StepLimit:
        return vs, None  # inconclusive: not counted as an evaluation
    except Exception as e:  # noqa: BLE001
        bad("harness-or-library-raises", f"{type(e).__name__}: {e}")
        return vs, None
    st = out["stop_state"] or {}
    feats = {"stop_with_inflight": bool(st.get("inflight")), "stop_with_open_source": bool(st.get("open_sources")),
             "stop_payloads": st.get("payloads"), "multi_stream": env.text.count("@stream") >= 2,
             "n_defer": min(env.text.count("@defer"), 3)}
    if out["prompt_violation"]:
        bad("prompt-release", out["prompt_violation"], feats)
    if stop["kind"] == "abort" and out["stop_done"]:
        if out["end"] == "raised":
            r = out["reason"]
            if isinstance(r, Exception) and out["raised"] is not r and getattr(out["raised"], "__cause__", None) is not r \
                    and getattr(out["raised"], "original_error", None) is not r:
                bad("abort-outcome", f"the pending pull raised {out['raised']!r}, not the abort reason {r!r}", feats)
    if not out.get("drained", True):
        bad("no-quiescence", "the loop did not reach quiescence after releasing every gate", feats)
    if out["tasks_left"]:
        bad("task-leak", f"{len(out['tasks_left'])} unfinished task(s): {out['tasks_left'][:2]}", feats)
    if out["inflight_end"]:
        bad("resolver-leak", f"{out['inflight_end']} harness resolver(s) still in flight", feats)
    for s in out["sources"]:
        if s["started"] and s["finalized"] != 1:
            bad("source-not-closed", f"source at {s['path']} started {s['started']}x, finalised "
                f"{s['finalized']}x, exhausted {s['exhausted']}", dict(feats, source_exhausted=bool(s["exhausted"])))
            break
    hc = out["hook_calls"]
    if len(hc) != 1:
        bad("hook-count", f"async_work_finished fired {len(hc)} times", feats)
    elif hc[0]["inflight"] or hc[0]["open_sources"]:
        bad("hook-too-early", f"async_work_finished fired with {hc[0]['inflight']} resolver(s) in flight and "
            f"{hc[0]['open_sources']} started source(s) not finalised", dict(feats, hook_inflight=bool(hc[0]["inflight"]),
                                                                              hook_open_sources=bool(hc[0]["open_sources"])))
    if out["unhandled"]:
        bad("unhandled-loop-exception", f"{out['unhandled'][:2]}", feats)
    return vs, out


def eval_scenario(sc):
    env = c02.Env(sc)
    if not env.valid:
        return [], 0, "generator-invalid", []
    vs, nt = [], []
    n = 0
    op_name, _k = sc["doc"]["ops"][0]
    vardefs = sc["doc"]["vars"].get(op_name or "", {})
    variables = sc["varsets"][op_name or ""][0]
    ref = R5.execute(env.m, env.tree, op_name, vardefs, variables, R5.Oracle(env.m, *sc["oracles"][0]))
    if ref.get("request_error") or ref.get("ambiguous"):
        return [], 0, "skipped", []
    for ri, (di, pi, stop) in enumerate(sc["stops"]):
        oseed, density = sc["oracles"][di % len(sc["oracles"])]
        plan_spec = sc["plans"][pi % len(sc["plans"])]
        for si, schedule in enumerate(sc["schedules"]):
            early = bool((si + ri) % 2)
            mode = "plain" if stop.get("plain") else "incremental"
            case = dict(sc, stops=[[di, pi, stop]], schedules=[schedule], flip=(si + ri) % 2)
            v1, out = eval_run(env, sc, op_name, variables, oseed, density, plan_spec, schedule,
                               bool((si + ri + sc.get("flip", 0)) % 2) if "flip" in sc else early, stop, mode,
                               case)
            vs += v1
            if out is None:
                continue
            n += 1
            st = out.get("stop_state") or {}
            if out["stop_done"] and (st.get("gates") or st.get("open_sources") or st.get("inflight")):
                nt.append({"q": env.text[:300], "stop": stop, "early": early, "state": st,
                           "trace": out["trace"][-6:]})
    return vs, n, "ok", nt


def g_scenario(c, n_sched=3):
    plain = c.chance(45)
    if plain:
        from checks import c03

        sc = c03.g_scenario(c, n_sched)  # no @defer/@stream: execute() refuses schemas that have them
        sc["doc"]["ops"] = sc["doc"]["ops"][:1]
    else:
        sc = c04.g_scenario(c, n_sched)
    stops = []
    for _ in range(3):
        k = c.pick(8)
        if k == 0:
            stop = {"kind": "none"}
        elif k <= 3 and not plain:
            stop = {"kind": "aclose", "after": c.choose([0, 1, 1, 2, 3])}
        else:
            stop = {"kind": "abort", "after": c.choose([-1, 0, 0, 1, 2]) if not plain else -1,
                    "reason": c.choose(["none", "exc", "str"])}
        if plain:
            stop["plain"] = True
        stops.append([c.pick(2), c.pick(2), stop])
    sc["stops"] = stops
    if not plain and c.chance(60):
        # back-pressure stratum: top-level lists stretched to just below / at / above the capacity (100) of
        # the stream item queue, so that the producer parks on the full queue or on its final entry
        long = c.choose([99, 100, 101, 102, 103, 130])
        # few awaitable fields: a stretched list multiplies every gate below it by a hundred
        sc["plans"] = [[p[0], min(p[1], 40), min(p[2], 80), p[3], min(p[4], 12), long] for p in sc["plans"]]
        sc["long"] = long
    if not plain and c.chance(128):
        # sources with an asynchronous finalisation: the generator's `finally` awaits a gate, so that a stop,
        # the hook or the end of the response can be observed while a source is still closing
        sc["plans"] = [(list(p) + [0])[:6] + [c.choose([128, 255, 255])] for p in sc["plans"]]
        sc["async_close"] = True
    return sc


def _scenarios(nex, n_sched):
    def fn(ctx, shard, nshards):
        def body(sc):
            vs, n, status, nt = eval_scenario(sc)
            ctx.count(n)
            ctx.cls("status:" + status)
            for _d, _p, stop in sc["stops"]:
                ctx.cls("stop:" + stop["kind"] + (":plain" if stop.get("plain") else ""))
            if sc.get("async_close"):
                ctx.cls("async-close-stratum")
            if sc.get("long"):
                ctx.cls("long-list-stratum" + (":with-stream" if "@stream" in str(sc["doc"]["tree"]["defs"][0]["sel"])[:4000] else ""))
            for x in nt:
                ctx.nontriv(x)
            if nt:
                ctx.sample("stop:" + nt[0]["stop"]["kind"], nt[0])
            ctx.check(vs)

        given_run(ctx, from_bytes(lambda c: g_scenario(c, n_sched), 3072), body, max_examples=nex)

    return fn


# ---- back-pressure of the stream item queue (capacity 100, not configurable from outside) ------------

BP_SDL = """
type Query { xs(n: Int): [X!]  ys(n: Int): [Int]  zs(n: Int): [X]  p: P }
type X { id: Int  tail: [Int]  slow: Int }
type P { fail: Int!  q: Q }
type Q { fail2: Int!  slow: Int }
"""
BP_DOCS = [
    "{ ys(n: %d) @stream(initialCount: %d) }",
    "{ xs(n: %d) @stream(initialCount: %d) { id } }",
    "{ xs(n: %d) @stream(initialCount: %d) { id tail @stream(initialCount: 1) } }",
    "{ zs(n: %d) @stream(initialCount: %d) { id ... @defer(label: \"D\") { slow } } }",
    "{ ... @defer(label: \"D0\") { ys(n: %d) @stream(initialCount: %d) } }",
    # two levels of "settle in the background": P.fail fails synchronously while q is pending; when q arrives,
    # Q.fail2 fails synchronously while slow is pending
    "{ p { q { slow fail2 } fail } ys(n: %d) @stream(initialCount: %d) }",
    # a long stream inside a deferred fragment whose execution group is still waiting for q / slow: on abort the
    # group fails with the abort reason and cleans its stream up while the work queue cancels it
    "{ ... @defer(label: \"D0\") { ys(n: %d) @stream(initialCount: %d) p { q { slow } } } }",
]
_BP = {}


def bp_schema():
    if "schema" not in _BP:
        from graphql import build_schema

        _BP["schema"] = build_schema(BP_SDL)
    return _BP["schema"]


def run_backpressure(case):
    """One run of a long streamed list; returns the observations of the stop invariants plus the items
    that the consumer assembled."""
    from inspect import isawaitable

    from graphql import ExecutionResult, parse
    from graphql.execution import ExecutionHooks, experimental_execute_incrementally
    from graphql.execution.aborted_graphql_execution_error import AbortedGraphQLExecutionError
    from graphql.pyutils import AbortController

    n, k = case["n"], case["initial"]
    doc = parse(BP_DOCS[case["doc"]] % (n, k))
    sched = Sched(case["schedule"], max_steps=30000)
    stats = {"inflight": 0}
    sources = []
    gated = set(case["gated"])
    fail_at = case.get("fail_at")
    stop = case["stop"]

    def later(label, value):
        async def run():
            stats["inflight"] += 1
            try:
                await sched.gate(label)
                return value
            finally:
                stats["inflight"] -= 1
        return run()

    def make_list(name, count, item):
        kind = case["source"]
        if kind == "list":
            return [later(f"i:{name}/{i}", item(i)) if i in gated else item(i) for i in range(count)]
        rec = {"path": [name], "started": 0, "finalized": 0, "next_calls": 0}
        sources.append(rec)

        async def agen():
            rec["started"] += 1
            try:
                for i in range(count):
                    rec["next_calls"] += 1
                    if i in gated and kind == "agen":
                        await sched.gate(f"it:{name}/{i}")
                    if fail_at == i:
                        raise Boom("source failed")
                    # "agen-aw": the generator yields awaitable items at the gated positions
                    yield later(f"i:{name}/{i}", item(i)) if i in gated and kind == "agen-aw" else item(i)
            finally:
                rec["finalized"] += 1
        return agen()

    def tail(i):
        if not case.get("tail_agen"):
            return [i, i + 1, i + 2]
        rec = {"path": ["tail", i], "started": 0, "finalized": 0, "next_calls": 0}
        sources.append(rec)

        async def agen():
            rec["started"] += 1
            try:
                for j in range(3):
                    rec["next_calls"] += 1
                    yield i + j
            finally:
                rec["finalized"] += 1
        return agen()

    def x(i):
        return {"id": i, "tail": (lambda _info: tail(i)), "slow": (lambda _info: later(f"f:slow/{i}", i)) if i in gated else i}

    def boom(_info):
        raise Boom("planted")

    root = {"p": {"fail": boom,
                  "q": lambda _info: later("f:q", {"fail2": boom, "slow": lambda _i: later("f:slow2", 1)})},
            "ys": lambda _info, n=0: make_list("ys", n, lambda i: i),
            "xs": lambda _info, n=0: make_list("xs", n, x),
            "zs": lambda _info, n=0: make_list("zs", n, x)}
    controller = AbortController()
    hook_calls = []
    out = {"payloads": 0, "end": None, "raised": None, "stop_done": False, "items": None, "initial": None,
           "incremental": [], "awaiting_library": False, "prompt_violation": None}
    frozen = {"on": False}
    reason = {"none": None, "exc": Boom("abort reason"), "str": "stop it"}[stop.get("reason", "none")]

    def hook(_info):
        hook_calls.append({"inflight": stats["inflight"],
                           "open_sources": sum(1 for s_ in sources if s_["started"] and not s_["finalized"])})

    def on_quiescent(s_):
        if frozen["on"]:
            frozen["on"] = False
            if not s_.main_task.done() and out["awaiting_library"]:
                out["prompt_violation"] = f"after {stop['kind']} the caller was still waiting at the next quiescence"

    sched.on_quiescent = on_quiescent

    def do_abort():
        out["stop_done"] = True
        frozen["on"] = True
        controller.abort(reason)

    if stop["kind"] == "abort":
        sched.add_action("abort", lambda: (not out["stop_done"]) and out["payloads"] >= stop["after"]
                         and out["initial"] is not None, do_abort)

    async def lib(awaitable):
        out["awaiting_library"] = True
        try:
            return await awaitable
        finally:
            out["awaiting_library"] = False

    async def main():
        try:
            r = experimental_execute_incrementally(
                bp_schema(), doc, root, enable_early_execution=case["early"], abort_signal=controller.signal,
                hooks=ExecutionHooks(async_work_finished=hook))
            if isawaitable(r):
                r = await lib(r)
        except AbortedGraphQLExecutionError as e:
            out["end"] = "aborted"
            res = e.aborted_result
            if isawaitable(res):
                res = await res
            sub = getattr(res, "subsequent_results", None)
            if sub is not None:
                await sub.aclose()
            return
        if isinstance(r, ExecutionResult):
            out["end"] = "single"
            out["initial"] = r.formatted
            return
        out["initial"] = r.initial_result.formatted
        it = r.subsequent_results
        while True:
            if stop["kind"] == "aclose" and out["payloads"] == stop["after"]:
                if case.get("settle_before_stop"):
                    # let eager producers run until they park on the full queue before closing
                    await sched.gate("pre-close")
                out["stop_done"] = True
                frozen["on"] = True
                await lib(it.aclose())
                out["end"] = "closed"
                return
            await sched.gate(f"pull:{out['payloads']}")
            try:
                p = await lib(it.__anext__())
            except StopAsyncIteration:
                out["end"] = "stop"
                return
            except Exception as e:  # noqa: BLE001
                out["raised"] = e
                out["end"] = "raised"
                await it.aclose()
                return
            out["payloads"] += 1
            out["incremental"].append(p.formatted)

    try:
        sched.run(main())
        out["unhandled"] = list(sched.unhandled)
        sched.drain(release_all=False)
        out["drained"] = sched.drain(rounds=5000)
        out["tasks_left"] = [repr(t.get_coro())[:80] for t in sched.unfinished_tasks()]
        out["inflight_end"] = stats["inflight"]
        out["sources"] = [dict(s_) for s_ in sources]
        out["hook_calls"] = hook_calls
        return out
    finally:
        sched.close()


def eval_backpressure(case, prop="C06"):
    """prop == "C06": the stop invariants; prop == "C04": only reassembly of the streamed list (complete, in
    order, no duplicates) when the consumer reads to the end."""
    vs = []
    stop = case["stop"]

    def bad(rel, detail):
        if (prop == "C04") != (rel in ("items-lost-or-reordered", "stream-end")):
            return
        vs.append(Violation((prop, "bp-" + rel, stop["kind"]),
                            f"{detail}; n={case['n']} initialCount={case['initial']} doc "
                            f"{BP_DOCS[case['doc']]!r} source {case['source']} gated {case['gated']} fail_at "
                            f"{case.get('fail_at')} early {case['early']} stop {stop} schedule {case['schedule']}",
                            case, {"relation": rel, "stop_kind": stop["kind"], "mode": "backpressure"}))

    try:
        out = run_backpressure(case)
    except Hang as h:
        bad("hang", str(h))
        return vs, 0, False
    except StepLimit:
        return vs, 0, False
    except Exception as e:  # noqa: BLE001
        bad("harness-or-library-raises", f"{type(e).__name__}: {e}")
        return vs, 0, False
    if out["prompt_violation"]:
        bad("prompt-release", out["prompt_violation"])
    if not out.get("drained", True):
        bad("no-quiescence", "the loop did not reach quiescence after releasing every gate")
    if out["tasks_left"]:
        bad("task-leak", f"{len(out['tasks_left'])} unfinished task(s): {out['tasks_left'][:2]}")
    if out["inflight_end"]:
        bad("resolver-leak", f"{out['inflight_end']} awaitable item(s)/field(s) still in flight")
    for s_ in out["sources"]:
        if s_["started"] and s_["finalized"] != 1:
            bad("source-not-closed", f"{s_}")
    hc = out["hook_calls"]
    if len(hc) != 1:
        bad("hook-count", f"async_work_finished fired {len(hc)} times")
    elif hc[0]["inflight"] or hc[0]["open_sources"]:
        bad("hook-too-early", f"async_work_finished fired with {hc[0]}")
    if out["unhandled"]:
        bad("unhandled-loop-exception", f"{out['unhandled'][:2]}")
    # completeness / order / no duplicates when the consumer reads to the end and nothing fails
    name = ["ys", "xs", "xs", "zs", "ys", "ys", "ys"][case["doc"]]
    if stop["kind"] == "none" and out["end"] == "stop":
        init = out["initial"].get("data") or {}
        got = list(init.get(name) or [])
        nulled = False
        ids = {}
        for p_ in out["initial"].get("pending", []):
            ids[p_["id"]] = p_
        for p in out["incremental"]:
            for p_ in p.get("pending", []) or []:
                ids[p_["id"]] = p_
            for inc in p.get("incremental", []) or []:
                tgt = ids.get(inc["id"], {})
                if "items" in inc and tgt.get("path") == [name]:
                    got.extend(inc["items"])
                elif "data" in inc and tgt.get("path") == [] and name in (inc["data"] or {}):
                    if inc["data"][name] is None:
                        nulled = True  # the source failed within the initial items: the list itself is null
                    else:
                        got = list(inc["data"][name]) + got
        key = [g["id"] if isinstance(g, dict) else g for g in got]
        if nulled or (name in init and init[name] is None):
            if case.get("fail_at") is None or case["fail_at"] >= case["initial"]:
                bad("items-lost-or-reordered", f"the list is null but the source did not fail within the first "
                    f"{case['initial']} items")
        elif case.get("fail_at") is not None:
            # the source fails at index fail_at: what was delivered before the failure is a gap-free prefix
            if key != list(range(len(key))) or len(key) > case["fail_at"]:
                bad("items-lost-or-reordered", f"source failed at {case['fail_at']}: assembled {len(key)} items "
                    f"that are not a prefix of the list: head {key[:5]}, tail {key[-5:]}")
        elif key != list(range(case["n"])):
            miss = sorted(set(range(case["n"])) - set(key))[:5]
            bad("items-lost-or-reordered", f"assembled {len(key)} items, expected {case['n']} in order; "
                f"first missing {miss}, head {key[:5]}, tail {key[-5:]}")
    if stop["kind"] == "none" and out["end"] not in ("stop", "raised", "single"):
        bad("stream-end", f"ended with {out['end']}")
    nontrivial = case["n"] - case["initial"] >= 100
    return vs, 1, nontrivial


def g_backpressure(c):
    initial = c.choose([0, 0, 1, 2])
    k = c.pick(10)
    if k <= 2:
        stop = {"kind": "none"}
    elif k <= 5:
        stop = {"kind": "aclose", "after": c.choose([0, 0, 1, 1, 2, 3])}
    else:
        stop = {"kind": "abort", "after": c.choose([0, 0, 1, 2]), "reason": c.choose(["none", "exc", "str"])}
    if c.chance(100):
        # the source ends exactly when the buffer is full: the producer parks on its final entry
        n = initial + 100 * (stop.get("after", 0) + 1) + c.choose([0, 0, 0, 1, -1])
    else:
        n = c.choose([99, 100, 101, 102, 103, 150, 199, 200, 201, 202, 203, 230, 301])
    near = [0, 1, 98, 99, 100, 101, 102, initial + 99, initial + 100, initial + 101, 199, 200, 201, n - 2, n - 1]
    gated = {x_ for x_ in (c.choose(near) for _ in range(c.count(0, 4))) if 0 <= x_ < n}
    if c.chance(128):
        # the entry that is in the producer's hands when the buffer is full (sometimes with a neighbour)
        edge = initial + 100 * (stop.get("after", 0) + 1)
        gated |= {x_ for x_ in [edge] + [[], [edge - 1], [edge + 1]][c.pick(3)] if 0 <= x_ < n}
    gated = sorted(gated)
    return {"n": n, "initial": initial, "doc": c.pick(len(BP_DOCS)), "source": c.choose(["list", "agen", "agen-aw"]),
            "gated": gated, "fail_at": c.choose(near) if c.chance(80) else None, "early": c.chance(140),
            "settle_before_stop": c.chance(150), "tail_agen": c.chance(150),
            "stop": stop, "schedule": c.ints(40, 8)}


def _backpressure(nex):
    def fn(ctx, shard, nshards):
        def body(case):
            if case["fail_at"] is not None and not 0 <= case["fail_at"] < case["n"]:
                case = dict(case, fail_at=None)
            vs, n, nt = eval_backpressure(case)
            ctx.count(n)
            ctx.cls("bp-stop:" + case["stop"]["kind"])
            ctx.cls("bp-source:" + case["source"] + (":early" if case["early"] else ":lazy"))
            if nt:
                ctx.nontriv({k_: case[k_] for k_ in ("n", "initial", "doc", "source", "gated", "fail_at", "early", "stop")},
                            "bp:" + case["stop"]["kind"])
            ctx.check(vs)

        given_run(ctx, from_bytes(g_backpressure, 256), body, max_examples=nex)

    return fn


# ---- subscription streams ---------------------------------------------------------------------


def g_subscription(c, n_sched=3):
    from checks import c07

    sc = c07.g_scenario(c, n_sched)
    sc["creation"] = c.choose(["ok", "ok", "ok", "ok", "ok", "awaited-error"])
    stops = []
    for _ in range(3):
        k = c.pick(6)
        if k == 0:
            stops.append({"kind": "none"})
        elif k <= 2:
            stops.append({"kind": "aclose", "after": c.choose([0, 0, 1, 1, 2, 3])})
        else:
            stops.append({"kind": "abort", "after": c.choose([0, 0, 1, 2]), "reason": c.choose(["none", "exc", "str"])})
    sc["sub_stops"] = stops
    return sc


def eval_subscription(sc):
    """Stops on a subscription response stream: aclose after k responses (k = 0: before the first
    pull), abort signal while a pull or the creation of the source is pending, none."""
    from checks import c07

    env = c02.Env(dict(sc, model=sc["model"]))
    if not env.valid:
        return [], 0, "generator-invalid", []
    if R5.coerce_variables(env.m, sc["doc"]["vars"]["Op0"], sc["variables"]) is R5.INVALID:
        return [], 0, "variables-rejected", []
    vs, nt, n = [], [], 0
    for stop in sc["sub_stops"]:
        for schedule in sc["schedules"]:
            case = dict(sc, sub_stops=[stop], schedules=[schedule])

            def bad(rel, detail, feats=None):
                f = {"relation": rel, "stop_kind": stop["kind"], "stop_after": stop.get("after"), "mode": "subscription"}
                f.update(feats or {})
                vs.append(Violation(("C06", "subscription-" + rel, stop["kind"]),
                                    f"{detail}; stop {stop}; query {env.text!r} events {sc['events']} source "
                                    f"{sc['source']} creation {sc['creation']} fail_at {sc['fail_at']} "
                                    f"schedule {schedule}", case, f))

            try:
                out = c07.run_once(env, sc, schedule, stop=stop)
            except Hang as h:
                bad("hang", str(h))
                continue
            except StepLimit:
                continue
            except Exception as e:  # noqa: BLE001
                bad("harness-or-library-raises", f"{type(e).__name__}: {e}")
                continue
            n += 1
            src = out["src"]
            if out["prompt_violation"]:
                bad("prompt-release", out["prompt_violation"])
            if stop["kind"] == "abort" and out["stop_done"] and out["end"] == "error":
                r = out["reason"]
                got = out["raised"]
                if isinstance(r, Exception) and got is not r and getattr(got, "__cause__", None) is not r \
                        and getattr(got, "original_error", None) is not r:
                    bad("abort-outcome", f"the pending pull raised {got!r}, not the abort reason {r!r}")
            if stop["kind"] == "abort" and out["stop_done"] and out["end"] == "stop" and sc["fail_at"] is None \
                    and (out["stop_state"] or {}).get("responses", 0) < len(sc["events"]):
                bad("abort-outcome", "the stream ended normally although it was aborted before the source ended")
            if out["tasks_left"]:
                bad("task-leak", f"{out['tasks_left']} unfinished task(s)")
            if out["inflight_end"]:
                bad("resolver-leak", f"{out['inflight_end']} harness resolver(s) still in flight")
            if out["unhandled"]:
                bad("unhandled-loop-exception", f"{out['unhandled'][:2]}")
            if sc["source"] in ("agen", "awaitable") and src["started"] and src["finalized"] != 1:
                bad("source-not-closed", f"{src}")
            if sc["source"] == "class" and src["started"] and src["finalized"] != 1:
                bad("source-not-closed", f"class-based iterator with aclose(): {src}")
            st = out["stop_state"] or {}
            if out["stop_done"] and (st.get("gates") or st.get("source_open") or st.get("inflight")):
                nt.append({"q": env.text[:200], "stop": stop, "state": st, "source": sc["source"],
                           "trace": out["trace"][-6:]})
    return vs, n, "ok", nt


def _subscriptions(nex, n_sched):
    def fn(ctx, shard, nshards):
        def body(sc):
            vs, n, status, nt = eval_subscription(sc)
            ctx.count(n)
            ctx.cls("sub-status:" + status)
            for stop in sc["sub_stops"]:
                ctx.cls("sub-stop:" + stop["kind"])
            for x in nt:
                ctx.nontriv(x)
            if nt:
                ctx.sample("subscription-stop:" + nt[0]["stop"]["kind"], nt[0])
            ctx.check(vs)

        given_run(ctx, from_bytes(lambda c: g_subscription(c, n_sched), 3072), body, max_examples=nex)

    return fn


def subchecks(tier):
    if tier == "quick":
        return [Sub("scenarios", _scenarios(300, 3), shards=10, weight=3),
                Sub("subscriptions", _subscriptions(250, 3), shards=3, weight=1),
                Sub("backpressure", _backpressure(150), shards=3, weight=1),
                # the real StreamItemQueue alone under abort / failure x completion orders: no hang, nothing left
                # running when the abort has been awaited, cleanup ran, discarded results' work cancelled
                Sub("stream_queue", sq_drive.subcheck("C06", 3, 24, 5), shards=3, weight=1)]
    return [Sub("scenarios", _scenarios(18000, 8), shards=16, weight=3),
            Sub("subscriptions", _subscriptions(12000, 6), shards=16, weight=1),
            Sub("backpressure", _backpressure(8000), shards=16, weight=1),
            Sub("stream_queue", sq_drive.subcheck("C06", 4, 120, 1), shards=16, weight=1)]


def replay(case):
    if "sq_spec" in case:
        return sq_drive.replay(case, "C06")
    if "sub_stops" in case:
        return eval_subscription(case)[0]
    if "gated" in case and "n" in case:
        return eval_backpressure(case)[0]
    return eval_scenario(case)[0]
