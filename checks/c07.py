"""C07 - a subscription maps source events to responses one-to-one and in order.

For generated subscription operations (one root field with arguments/variables/fragments below it)
and source event sequences of length 0..5, under schedules that interleave source emissions, consumer
pulls and per-event awaitable resolvers:
  * the response stream yields exactly one response per source event, in source order, the i-th equal
    to the reference executor (R5) running the operation's selection set with event i as root value
    (data and multiset of error paths; errors of one event never leak into the next);
  * the stream ends exactly when the source ends; a source exception after p events surfaces to the
    consumer after p responses; a failure while creating the source (resolver raises, returns an
    awaited error, returns a non-iterable) gives a single errors-only response located at the root field;
  * afterwards nothing is left: no pending task, the source was finalised exactly once.
"""

from __future__ import annotations

import json

from checks import c02
from vkit.core import Sub, Violation, given_run
from vkit.gen import g2, g3
from vkit.gen.choice import from_bytes
from vkit.harness.resolvers import AsyncPlan, Boom, make_async_resolvers
from vkit.harness.sched import Hang, Sched, StepLimit
from vkit.ref import execute as R5

ID = "C07"
RULE = (
    "schema models with a subscription root; subscription documents from the type-directed generator "
    "(one root field, arguments, variables, fragments, faults in the per-event selection through the data "
    "oracle); event sequences of length 0-5; source = async generator / class-based iterator / awaitable "
    "returning an iterator; creation outcome in {iterator, raises, returns non-iterable, awaited error}; a "
    "source failure planted at position p; 4 schedules per case interleaving emissions, pulls and resolver "
    "gates. Non-trivial: >= 2 events and (an event with an error, or a pull parked before an emission). "
    "Distinct by hash of (document, events, source kind, failure, schedule)."
)
ASSUMPTIONS = [
    "each event is a record of the subscription root type; its response is defined as the reference executor run with that record as root value",
    "the consumer pulls sequentially (one __anext__ at a time)",
]


def payload(root_type, e):
    """Source event payload: a record of the root type, or one of the falsy Python values."""
    if isinstance(e, int):
        return {"__typename": root_type, "__id": e, "__depth": 0}
    return {"{}": {}, "0": 0, "''": "", "False": False, "[]": [], "0.0": 0.0}[e]


def ensure_subscription(m):
    m = dict(m)
    if m.get("subscription"):
        return m
    cands = [o["name"] for o in m["objects"] if o["name"] not in (m["query"], m["mutation"])]
    if cands:
        m["subscription"] = cands[0]
        if m["subscription"] in ("Query", "Mutation"):
            m["force_schema_block"] = True
    else:
        m["objects"] = m["objects"] + [{"name": "Subscription", "desc": None, "interfaces": [], "fields": [
            {"name": "id", "type": "ID", "args": [], "desc": None, "dep": None},
            {"name": "tick", "type": "Int", "args": [{"name": "x", "type": "Int", "default": ["v", 1],
                                                      "desc": None, "dep": None}], "desc": None, "dep": None}]}]
        m["subscription"] = "Subscription"
    return m


def g_scenario(c, n_sched=4):
    m = g2.as_model(ensure_subscription(g2.g_model(c)))
    gen = g3.DocGen(c, m)
    root = m["subscription"]
    field = None
    for _ in range(4):
        f = gen.g_field(root, (), 3)
        if f and f["n"] != "__typename":
            field = f
            break
    if field is None:
        field = {"k": "field", "alias": None, "n": "id", "args": [], "dirs": [], "sel": None}
    field["dirs"] = []
    op = {"k": "op", "short": False, "desc": None, "op": "subscription", "n": "Op0", "vars": gen.vardefs(),
          "dirs": [], "sel": [field]}
    tree = {"k": "doc", "defs": [op] + gen.frags, "frag_args": False, "dir_on_dir": False}
    doc = {"tree": tree, "ops": [["Op0", "subscription"]], "vars": {"Op0": gen.vars},
           "features": sorted(gen.features)}
    n_events = c.count(0, 5)
    return {"model": dict(m), "doc": doc, "variables": g3.g_variable_values(c, m, gen.vars, "valid"),
            "events": [c.pick(100000) if c.chance(200) else c.choose(["{}", "0", "''", "False", "[]", "0.0"])
                       for _ in range(n_events)],
            "source": c.choose(["agen", "class", "awaitable", "class-no-aclose"]),
            "creation": c.choose(["ok", "ok", "ok", "ok", "raises", "non-iterable", "awaited-error"]),
            "fail_at": c.pick(n_events + 1) if c.chance(70) else None,
            "oracle": [c.pick(1000), c.choose([0, 0, 30, 60])],
            "plan": [c.pick(1000), c.choose([0, 100, 200]), c.choose([0, 100]), 0, 0],
            "schedules": [c.ints(16, 8) for _ in range(n_sched)],
            "schema_mode": c.choose(["prog", "sdl"]), "layout": [], "no_location": False}


def run_once(env, sc, schedule, stop=None):
    """stop (used by C06): None | {"kind": "aclose", "after": k} | {"kind": "abort", "after": k, "reason": r}"""
    from graphql import ExecutionResult, subscribe
    from graphql.pyutils import AbortController
    from inspect import isawaitable

    m = env.m
    root_type = m["subscription"]
    oseed, density = sc["oracle"]
    oracle = R5.Oracle(m, oseed, density)
    sched = Sched(schedule)
    events_log, log = [], []
    plan = AsyncPlan(*sc["plan"])
    stats = {"inflight": 0}
    resolve, resolve_type = make_async_resolvers(oracle, sched, plan, events_log, log, env.out_names, stats=stats)
    records = [payload(root_type, e) for e in sc["events"]]
    src = {"started": 0, "finalized": 0, "aclose_calls": 0, "next_calls": 0, "emitted": 0}
    fail_at = sc["fail_at"]

    async def agen():
        src["started"] += 1
        try:
            for i, rec in enumerate(records):
                if fail_at == i:
                    raise Boom("source failed")
                await sched.gate(f"emit:{i}")
                src["emitted"] += 1
                yield rec
            if fail_at == len(records):
                raise Boom("source failed")
        finally:
            src["finalized"] += 1

    class Iter:
        def __init__(self, with_aclose):
            self.i = 0
            self.done = False
            if with_aclose:
                self.aclose = self._aclose

        def __aiter__(self):
            return self

        async def __anext__(self):
            src["started"] = 1
            src["next_calls"] += 1
            if self.done:
                raise StopAsyncIteration
            i = self.i
            if fail_at == i:
                self.done = True
                src["finalized"] += 1
                raise Boom("source failed")
            if i >= len(records):
                self.done = True
                src["finalized"] += 1
                raise StopAsyncIteration
            await sched.gate(f"emit:{i}")
            self.i += 1
            src["emitted"] += 1
            return records[i]

        async def _aclose(self):
            src["aclose_calls"] += 1
            if not self.done:
                self.done = True
                src["finalized"] += 1
            # a hand-written aclose() may return anything; the value must not leak into the stream's fate
            return [None, True, "closed", 0][oseed % 4]

    def subscribe_resolver(_src, info, **kwargs):
        c = sc["creation"]
        if c == "raises":
            raise Boom("cannot subscribe")
        if c == "non-iterable":
            return 42
        if c == "awaited-error":
            async def fails():
                await sched.gate("create")
                raise Boom("cannot subscribe")

            return fails()
        kind = sc["source"]
        if kind == "agen":
            return agen()
        if kind == "awaitable":
            async def later():
                await sched.gate("create")
                return agen()

            return later()
        return Iter(kind == "class")

    out = {"responses": [], "end": None, "single": None, "raised": None, "stop_done": False,
           "stop_state": None, "prompt_violation": None, "awaiting_library": False}
    kw = {}
    controller = AbortController()
    reason = None
    frozen = {"on": False}
    if stop is not None and stop["kind"] == "abort":
        kw["abort_signal"] = controller.signal
        reason = {"none": None, "exc": Boom("abort reason"), "str": "stop it"}[stop.get("reason", "none")]

        def do_abort():
            out["stop_done"] = True
            out["stop_state"] = {"gates": len(sched.pending_gates()), "inflight": stats["inflight"],
                                 "source_open": bool(src["started"] and not src["finalized"]),
                                 "awaiting": out["awaiting_library"], "responses": len(out["responses"])}
            frozen["on"] = True
            controller.abort(reason)

        sched.add_action("abort", lambda: (not out["stop_done"]) and len(out["responses"]) >= stop["after"]
                         and out["awaiting_library"], do_abort)

        def on_quiescent(s_):
            if frozen["on"]:
                frozen["on"] = False
                if not s_.main_task.done() and out["awaiting_library"]:
                    out["prompt_violation"] = ("after the abort the caller was still waiting at the next "
                                               f"quiescence; gates pending {[g[0] for g in s_.pending_gates()][:4]}")

        sched.on_quiescent = on_quiescent
    out["reason"] = reason

    async def lib(awaitable):
        out["awaiting_library"] = True
        try:
            return await awaitable
        finally:
            out["awaiting_library"] = False

    async def main():
        try:
            r = subscribe(env.schema, env.doc, root_value={"__typename": root_type, "__id": 0, "__depth": 0},
                          variable_values=sc["variables"], operation_name="Op0", field_resolver=resolve,
                          type_resolver=resolve_type, subscribe_field_resolver=subscribe_resolver, **kw)
            if isawaitable(r):
                r = await lib(r)
        except Exception as e:  # noqa: BLE001
            if stop is None:
                raise
            out["end"] = "raised-creating"
            out["raised"] = e
            return
        if isinstance(r, ExecutionResult):
            out["single"] = r
            return
        it = r.__aiter__()
        while True:
            if stop is not None and stop["kind"] == "aclose" and len(out["responses"]) == stop["after"]:
                out["stop_done"] = True
                out["stop_state"] = {"gates": len(sched.pending_gates()), "inflight": stats["inflight"],
                                     "source_open": bool(src["started"] and not src["finalized"]),
                                     "awaiting": True, "responses": len(out["responses"])}
                await lib(it.aclose())
                out["end"] = "closed"
                return
            await sched.gate(f"pull:{len(out['responses'])}")
            if stop is not None:
                try:
                    x = await lib(it.__anext__())
                except StopAsyncIteration:
                    out["end"] = "stop"
                    break
                except Exception as e:  # noqa: BLE001
                    out["end"] = "error"
                    out["raised"] = e
                    try:
                        await it.aclose()
                    except Exception as e2:  # noqa: BLE001
                        out["protocol_error"] = repr(e2)
                    break
                out["responses"].append(x)
                continue
            try:
                x = await it.__anext__()
            except StopAsyncIteration:
                out["end"] = "stop"
                break
            except Exception as e:  # noqa: BLE001
                out["end"] = "error"
                out["raised"] = e
                break
            out["responses"].append(x)

    try:
        sched.run(main())
        out["trace"] = sched.trace
        out["varied"] = sched.varied
        out["unhandled"] = list(sched.unhandled)
        sched.drain()
        out["tasks_left"] = len(sched.unfinished_tasks())
        out["inflight_end"] = stats["inflight"]
        out["root_value_mismatch"] = stats.get("root_value_mismatch", 0)
        out["src"] = dict(src)  # before the loop is closed: shutdown_asyncgens() would hide a leaked source
        return out
    finally:
        sched.close()


def expected_for_event(env, sc, rec):
    """Reference response for one event: the operation's selection set with rec as root value."""
    oseed, density = sc["oracle"]
    ex = R5.Executor(env.m, env.tree, R5.Oracle(env.m, oseed, density))
    variables = R5.coerce_variables(env.m, sc["doc"]["vars"]["Op0"], sc["variables"])
    ex.variables = variables
    op = ex.ops[0]
    try:
        data = ex.exec_selection_set(env.m["subscription"], rec, [op["sel"]], ())
    except R5.FieldError:
        data = None
    return data, ex.error_paths


def eval_scenario(sc):
    sc = dict(sc)
    env = c02.Env(dict(sc, model=sc["model"]))
    if not env.valid:
        return [], 0, "generator-invalid", []
    variables = R5.coerce_variables(env.m, sc["doc"]["vars"]["Op0"], sc["variables"])
    if variables is R5.INVALID:
        return [], 0, "variables-rejected", []
    vs, nt = [], []
    n = 0
    root_type = env.m["subscription"]
    root_key = env.tree["defs"][0]["sel"][0]["alias"] or env.tree["defs"][0]["sel"][0]["n"]
    for schedule in sc["schedules"]:
        case = dict(sc, schedules=[schedule])

        def bad(rel, detail):
            vs.append(Violation(("C07", rel), f"{detail}; query {env.text!r} events {len(sc['events'])} "
                                f"source {sc['source']} creation {sc['creation']} fail_at {sc['fail_at']} "
                                f"schedule {schedule}", case, {"relation": rel}))

        try:
            out = run_once(env, sc, schedule)
        except Hang as h:
            bad("hang", str(h))
            continue
        except StepLimit:
            continue  # inconclusive
        except Exception as e:  # noqa: BLE001
            bad("subscribe-raises", f"{type(e).__name__}: {e}")
            continue
        n += 1
        # does the reference say the arguments of the root field coerce?  (if not: creation error)
        ex = R5.Executor(env.m, env.tree, R5.Oracle(env.m, *sc["oracle"]))
        ex.variables = variables
        fdef = next(f for f in env.m.get(root_type)["fields"] if f["name"] == env.tree["defs"][0]["sel"][0]["n"])
        args_ok = R5.coerce_arguments(env.m, fdef["args"], env.tree["defs"][0]["sel"][0]["args"],
                                      variables) is not R5.INVALID
        if sc["creation"] != "ok" or not args_ok:
            s = out["single"]
            if s is None:
                bad("creation-failure-not-single-response", f"got a stream with {len(out['responses'])} responses")
            else:
                f = s.formatted
                if f.get("data") is not None or len(f.get("errors", [])) != 1:
                    bad("creation-failure-response", f"{str(f)[:200]}")
                elif f["errors"][0].get("path") != [root_key] or "locations" not in f["errors"][0]:
                    bad("creation-failure-unlocated", f"{f['errors'][0]}")
            continue
        if out["single"] is not None:
            bad("unexpected-single-response", f"{str(out['single'].formatted)[:200]}")
            continue
        events = [payload(root_type, e) for e in sc["events"]]
        fail_at = sc["fail_at"]
        expect_n = len(events) if fail_at is None else min(fail_at, len(events))
        if len(out["responses"]) != expect_n:
            bad("response-count", f"{len(out['responses'])} responses for {expect_n} delivered events")
            continue
        had_error = False
        for i, (resp, rec) in enumerate(zip(out["responses"], events)):
            data, epaths = expected_for_event(env, sc, rec)
            f = resp.formatted
            d = c02.ordered_eq(f.get("data"), data)
            if d:
                bad("event-response-data", f"event #{i}: {d}")
                break
            got = sorted(json.dumps(e.get("path")) for e in f.get("errors", []))
            want = sorted(json.dumps(p) for p in epaths)
            if sc["plan"][1] == 0 and sc["plan"][2] == 0:
                if got != want:
                    bad("event-response-errors", f"event #{i}: error paths {got}, expected {want}")
                    break
            elif bool(got) != bool(want):
                bad("event-response-errors", f"event #{i}: error paths {got}, expected {want}")
                break
            had_error = had_error or bool(want)
        want_end = "stop" if fail_at is None else "error"
        if out["end"] != want_end:
            bad("stream-end", f"stream ended with {out['end']} ({out['raised']!r}), expected {want_end}")
        elif want_end == "error" and not isinstance(out["raised"], Boom):
            bad("source-error-changed", f"consumer saw {out['raised']!r} instead of the source's exception")
        if out.get("root_value_mismatch"):
            bad("resolve-info-root-value", f"{out['root_value_mismatch']} top-level resolver call(s) of the "
                "per-event executions saw an info.root_value that is not the event")
        if out["tasks_left"]:
            bad("task-leak", f"{out['tasks_left']} unfinished tasks after the stream ended")
        if out["unhandled"]:
            bad("unhandled-loop-exception", f"{out['unhandled'][:2]}")
        src = out["src"]
        if sc["source"] in ("agen", "awaitable") and src["started"] and src["finalized"] != 1:
            bad("source-not-finalized-once", f"{src}")
        if len(events) >= 2 and (had_error or any(t.startswith("release:pull") for t in out["trace"][:3])):
            nt.append({"q": env.text, "events": sc["events"], "trace": out["trace"][:10]})
    return vs, n, "ok", nt


def _scenarios(nex, n_sched):
    def fn(ctx, shard, nshards):
        def body(sc):
            vs, n, status, nt = eval_scenario(sc)
            ctx.count(n)
            ctx.cls("status:" + status)
            ctx.cls("creation:" + sc["creation"])
            ctx.cls("source:" + sc["source"])
            if sc["fail_at"] is not None:
                ctx.cls("source-failure")
            for x in nt:
                ctx.nontriv(x)
            if nt:
                ctx.sample("subscription", nt[0])
            ctx.check(vs)

        given_run(ctx, from_bytes(lambda c: g_scenario(c, n_sched), 3072), body, max_examples=nex)

    return fn


def subchecks(tier):
    if tier == "quick":
        return [Sub("scenarios", _scenarios(500, 4), shards=14)]
    return [Sub("scenarios", _scenarios(30000, 12), shards=16)]


def replay(case):
    return eval_scenario(case)[0]
