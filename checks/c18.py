"""C18 - introspection describes the schema truthfully and can rebuild it.

Per generated schema (G2 model, programmatic or from SDL; some directives deprecated):
  options   all 2^7 option combinations of the standard introspection query (exhaustive per schema):
            the query validates, executes without errors, its result has the shape the introspection
            types prescribe (vkit/ref/shape.py) and equals R8(full result, options) - the full-options
            result minus exactly what the switched-off options omit
  lookups   __type(name:) for every type name and for unknown names equals the entry of __schema.types;
            includeDeprecated both ways on fields / enumValues / args / inputFields
  client    build_client_schema(full): prints like the original, no schema changes either way,
            introspects to the same result again
"""

from __future__ import annotations

import copy
import itertools

from vkit.core import Sub, Violation, given_run
from vkit.gen import g2
from vkit.gen.choice import from_bytes
from vkit.ref import shape

ID = "C18"
RULE = (
    "schemas from the type-directed model generator (deprecated args/input fields/enum values/fields/"
    "directives, defaults of every kind, interface-implementing interfaces, OneOf, specifiedBy) x all 128 "
    "option combinations x __type lookups for every type name and two unknown names x includeDeprecated "
    "both ways. Non-trivial: the schema has >= 1 deprecated input value (argument, input field or "
    "directive argument) and >= 1 default value. Distinct by model hash."
)
ASSUMPTIONS = [
    "wrapper depth <= 4 (introspection_from_schema fixes type_depth = 9)",
    "R8 (the projection in this file) is my reading of what each option of get_introspection_query omits",
]

_DOCS = {}
OPTS = ["descriptions", "specified_by_url", "directive_is_repeatable", "schema_description",
        "input_value_deprecation", "experimental_directive_deprecation", "one_of"]


def project(full, o):
    """R8: what the result must be when the options in o (dict name -> bool) are used."""
    r = copy.deepcopy(full)
    s = r["__schema"]

    def strip_desc(d):
        d.pop("description", None)

    def input_values(lst):
        out = []
        for iv in lst:
            if not o["input_value_deprecation"]:
                if iv.get("isDeprecated"):
                    continue
                iv.pop("isDeprecated", None)
                iv.pop("deprecationReason", None)
            if not o["descriptions"]:
                strip_desc(iv)
            out.append(iv)
        return out

    if not (o["descriptions"] and o["schema_description"]):
        strip_desc(s)
    for t in s["types"]:
        if not o["descriptions"]:
            strip_desc(t)
        if not o["specified_by_url"]:
            t.pop("specifiedByURL", None)
        if not o["one_of"]:
            t.pop("isOneOf", None)
        for f in t.get("fields") or []:
            if not o["descriptions"]:
                strip_desc(f)
            f["args"] = input_values(f["args"])
        if t.get("inputFields") is not None:
            t["inputFields"] = input_values(t["inputFields"])
        for ev in t.get("enumValues") or []:
            if not o["descriptions"]:
                strip_desc(ev)
    dirs = []
    for d in s["directives"]:
        if not o["experimental_directive_deprecation"]:
            if d.get("isDeprecated"):
                continue
            d.pop("isDeprecated", None)
            d.pop("deprecationReason", None)
        if not o["descriptions"]:
            strip_desc(d)
        if not o["directive_is_repeatable"]:
            d.pop("isRepeatable", None)
        d["args"] = input_values(d["args"])
        dirs.append(d)
    s["directives"] = dirs
    return r


def first_diff(a, b, path=""):
    if a == b:
        return None
    if isinstance(a, dict) and isinstance(b, dict):
        for k in a:
            if k not in b:
                return f"{path}/{k}: missing in expected"
            d = first_diff(a[k], b[k], f"{path}/{k}")
            if d:
                return d
        return f"{path}: expected also has {sorted(set(b) - set(a))}"
    if isinstance(a, list) and isinstance(b, list):
        if len(a) != len(b):
            na = [x.get("name") if isinstance(x, dict) else x for x in a]
            nb = [x.get("name") if isinstance(x, dict) else x for x in b]
            return f"{path}: got {na} expected {nb}"
        for i, (x, y) in enumerate(zip(a, b)):
            lab = x.get("name", i) if isinstance(x, dict) else i
            d = first_diff(x, y, f"{path}/{lab}")
            if d:
                return d
    return f"{path}: got {a!r} expected {b!r}"


def build_schema_for(m, mode):
    from graphql import build_schema

    if mode == "sdl":
        return build_schema(g2.to_sdl(m))
    return g2.build(m)


def eval_model(m, mode, dep_dirs):
    from graphql import (build_client_schema, get_introspection_query, graphql_sync, parse,
                         print_schema, validate)
    from graphql.execution import execute_sync
    from graphql.utilities import find_schema_changes, introspection_from_schema

    m = g2.as_model(copy.deepcopy(dict(m)))
    case = {"model": dict(m), "mode": mode, "dep_dirs": dep_dirs}
    vs = []
    n = 0

    def bad(rel, detail, cls="other"):
        vs.append(Violation(("C18", rel, cls), detail, case, {"relation": rel, "class": cls}))

    for i, d in enumerate(m["directives"]):
        if mode == "prog" and i < len(dep_dirs) and dep_dirs[i] is not None:
            d["dep"] = dep_dirs[i]
    try:
        s = build_schema_for(m, mode)
    except Exception as e:  # noqa: BLE001
        bad("generator-invalid", repr(e))
        return vs, 0
    full_opts = dict.fromkeys(OPTS, True)
    try:
        full = introspection_from_schema(s, **full_opts)
    except Exception as e:  # noqa: BLE001
        bad("introspection-raises", f"{type(e).__name__}: {e}")
        return vs, 1
    # --- options: all 2^7 combinations -------------------------------------------------
    for bits in itertools.product([False, True], repeat=len(OPTS)):
        o = dict(zip(OPTS, bits))
        cls = "opts:" + ",".join(k for k in OPTS if not o[k])[:60]
        n += 1
        try:
            doc = _DOCS.get(bits)
            if doc is None:
                doc = _DOCS[bits] = parse(get_introspection_query(**o))
            verrs = validate(s, doc)
            if verrs:
                bad("query-invalid", f"{verrs[0].message} with {o}", cls)
                continue
            # the documented entry point with options (it builds, parses and executes the query)
            data = introspection_from_schema(s, **o)
        except Exception as e:  # noqa: BLE001
            bad("query-raises", f"{type(e).__name__}: {e} with {o}", cls)
            continue
        probs = shape.check(s, doc, data)
        if probs:
            bad("result-shape", f"{probs[0]} with {o}", cls)
        exp = project(full, o)
        d = first_diff(data, exp)
        if d:
            bad("projection", f"{d} with options off: {[k for k in OPTS if not o[k]]}", cls)
        if len(vs) > 6:
            return vs, n
    # --- single-type lookups ---------------------------------------------------------------
    full_q = get_introspection_query(**full_opts)
    frags = full_q[full_q.index("fragment FullType"):]
    by_name = {t["name"]: t for t in full["__schema"]["types"]}
    names = list(by_name) + ["NoSuchType", "__nope"]
    sel = " ".join(f't{i}: __type(name: "{nm}") {{ ...FullType }}' for i, nm in enumerate(names))
    try:
        r = graphql_sync(s, "{ " + sel + " }\n" + frags)
        n += 1
        if r.errors:
            bad("lookup-errors", r.errors[0].message)
        else:
            for i, nm in enumerate(names):
                got = r.data[f"t{i}"]
                want = by_name.get(nm)
                if got != want:
                    bad("lookup-differs", f"__type(name: {nm!r}): {first_diff(got, want) if got and want else (got, want)}")
                    break
    except Exception as e:  # noqa: BLE001
        bad("lookup-raises", f"{type(e).__name__}: {e}")
    # includeDeprecated both ways
    sel = " ".join(
        f't{i}: __type(name: "{nm}") {{ '
        "f0: fields(includeDeprecated: false) { name args(includeDeprecated: false) { name } } "
        "f1: fields(includeDeprecated: true) { name args(includeDeprecated: true) { name } } "
        "fd: fields { name args { name } } "
        "e0: enumValues(includeDeprecated: false) { name } e1: enumValues(includeDeprecated: true) { name } "
        "ed: enumValues { name } "
        "i0: inputFields(includeDeprecated: false) { name } i1: inputFields(includeDeprecated: true) { name } "
        "id: inputFields { name } }" for i, nm in enumerate(by_name))
    try:
        r = graphql_sync(s, "{ " + sel + " }")
        n += 1
        if r.errors:
            bad("deprecation-filter-errors", r.errors[0].message)
        else:
            for i, (nm, t) in enumerate(by_name.items()):
                got = r.data[f"t{i}"]

                def names_of(lst, keep_dep):
                    if lst is None:
                        return None
                    return [x["name"] for x in lst if keep_dep or not x.get("isDeprecated")]

                def fields_of(keep_dep):
                    if t.get("fields") is None:
                        return None
                    return [{"name": f["name"],
                             "args": [{"name": a["name"]} for a in f["args"]
                                      if keep_dep or not a.get("isDeprecated")]}
                            for f in t["fields"] if keep_dep or not f.get("isDeprecated")]

                exp = {"f0": fields_of(False), "f1": fields_of(True), "fd": fields_of(False),
                       "e0": _n(names_of(t.get("enumValues"), False)),
                       "e1": _n(names_of(t.get("enumValues"), True)),
                       "ed": _n(names_of(t.get("enumValues"), False)),
                       "i0": _n(names_of(t.get("inputFields"), False)),
                       "i1": _n(names_of(t.get("inputFields"), True)),
                       "id": _n(names_of(t.get("inputFields"), False))}
                if got != exp:
                    bad("deprecation-filter", f"type {nm}: {first_diff(got, exp)}")
                    break
    except Exception as e:  # noqa: BLE001
        bad("deprecation-filter-raises", f"{type(e).__name__}: {e}")
    # --- client schema ---------------------------------------------------------------------
    try:
        c = build_client_schema(full)
        n += 1
        p1, p2 = print_schema(s), print_schema(c)
        if p1 != p2:
            bad("client-print-differs", _line_diff(p1, p2))
        ch = find_schema_changes(s, c) + find_schema_changes(c, s)
        if ch:
            bad("client-schema-changes", f"{ch[0].type.name}: {ch[0].description}")
        again = introspection_from_schema(c, **full_opts)
        if again != full:
            bad("client-reintrospection", first_diff(again, full))
    except Exception as e:  # noqa: BLE001
        bad("client-raises", f"{type(e).__name__}: {e}")
    return vs, n


def _n(lst):
    return None if lst is None else [{"name": x} for x in lst]


def _line_diff(a, b):
    la, lb = a.split("\n"), b.split("\n")
    for i, (x, y) in enumerate(zip(la, lb)):
        if x != y:
            return f"line {i + 1}: {x!r} != {y!r}"
    return f"{len(la)} vs {len(lb)} lines"


def nontrivial(m):
    m = g2.as_model(m)
    s = str(dict(m))
    dep_in = any(a["dep"] is not None for key in ("objects", "interfaces") for t in m[key]
                 for f in t["fields"] for a in f["args"]) or any(
        f["dep"] is not None for i in m["inputs"] for f in i["fields"]) or any(
        a["dep"] is not None for d in m["directives"] for a in d["args"])
    return dep_in and "'default': ['v'" in s


def _models(nex):
    def fn(ctx, shard, nshards):
        def dec(c):
            m = dict(g2.g_model(c))
            return {"model": m, "mode": c.choose(["prog", "prog", "sdl"]),
                    "dep_dirs": [c.choose([None, None, "old", "", "No longer supported"])
                                 for _ in m["directives"]]}

        def body(case):
            vs, n = eval_model(case["model"], case["mode"], case["dep_dirs"])
            ctx.count(n)
            ctx.cls("mode:" + case["mode"])
            if any(d is not None for d in case["dep_dirs"]) and case["mode"] == "prog":
                ctx.cls("deprecated-directive")
            if nontrivial(case["model"]):
                ctx.nontriv(case["model"], "schema")
            ctx.check(vs)

        given_run(ctx, from_bytes(dec, 1024), body, max_examples=nex)

    return fn


def subchecks(tier):
    if tier == "quick":
        return [Sub("models", _models(18), shards=14)]
    return [Sub("models", _models(700), shards=16)]


def replay(case):
    return eval_model(case["model"], case["mode"], case["dep_dirs"])[0]
