"""C17 - a schema survives printing to SDL and rebuilding.

Oracle: print -> build -> print fixed point, validate_schema(rebuilt) == [], find_schema_changes
both ways == [], and an independent structural view (vkit/ref/schema_view.py) of both schemas
(descriptions, deprecations, defaults as coerced values, locations, repeatable, interfaces,
members, OneOf, specifiedBy, roots, all orders) must be equal; descriptions/deprecation reasons
are also compared with the generated model itself.
"""

from __future__ import annotations

from vkit.core import Sub, Violation, given_run
from vkit.gen import g2
from vkit.gen.choice import from_bytes
from vkit.ref import schema_view

ID = "C17"
RULE = (
    "schema models from the type-directed generator G2 (objects, interface chains/diamonds, unions, "
    "enums, recursive/OneOf input objects, custom scalars with specifiedBy, custom directives, "
    "non-default roots, non-root types named like default roots, descriptions/deprecation reasons over "
    "an adversarial alphabet, defaults of every input kind), realised (a) from SDL in a drawn "
    "definition order and (b) programmatically. Non-trivial: >= 1 description or reason with a "
    "character outside [ -~] or a line break, and >= 1 non-scalar default. Distinct by model hash."
)
ASSUMPTIONS = [
    "models are valid by construction (validate_schema(s) == [] is asserted as a precondition and counted)",
    "wrapper depth <= 4",
]


def _texts(m):
    for key in ("scalars", "enums", "inputs", "interfaces", "objects", "unions", "directives"):
        for x in m[key]:
            yield x.get("desc")
            if key == "directives":
                yield x.get("dep")
            for v in x.get("values", []):
                yield v["desc"]
                yield v["dep"]
            for f in x.get("fields", []) + x.get("args", []):
                yield f["desc"]
                yield f["dep"]
                for a in f.get("args", []):
                    yield a["desc"]
                    yield a["dep"]


def _defaults(m):
    for key in ("inputs", "interfaces", "objects", "directives"):
        for x in m[key]:
            for f in x.get("fields", []) + x.get("args", []):
                if f.get("default") is not None:
                    yield f["default"][1]
                for a in f.get("args", []):
                    if a.get("default") is not None:
                        yield a["default"][1]


def text_class(m):
    ts = [t for t in _texts(m) if t]
    if any(c in t for t in ts for c in "\x0b\x0c\x1c\x1d\x1e\x85\u2028\u2029"):
        return "py-only-terminator-in-text"
    if any(ord(c) < 32 or ord(c) > 126 for t in ts for c in t):
        return "non-printable-ascii-text"
    if any(t == "" for t in _texts(m)):
        return "empty-text"
    return "plain"


def nontrivial(m):
    ts = [t for t in _texts(m) if t]
    odd = any(ord(c) < 32 or ord(c) > 126 for t in ts for c in t)
    return odd and any(isinstance(d, (list, dict)) for d in _defaults(m))


def eval_model(m, order, mode, dep_dirs=()):
    from graphql import build_schema as _build_schema, print_schema, validate_schema
    from graphql.utilities import find_schema_changes

    m = g2.as_model(m)
    case = {"model": dict(m), "order": order, "mode": mode, "dep_dirs": list(dep_dirs)}
    m = g2.as_model({**m, "directives": [dict(d) for d in m["directives"]]})
    for i, d in enumerate(m["directives"]):
        if i < len(dep_dirs) and dep_dirs[i] is not None:
            d["dep"] = dep_dirs[i]
    # `directive @d @deprecated on ...` is experimental syntax: the parser accepts it on request only
    dep_dir = any(d.get("dep") is not None for d in m["directives"])

    def build_schema(text):
        return _build_schema(text, experimental_directives_on_directive_definitions=dep_dir)

    cls = text_class(m)
    vs = []

    def bad(rel, detail):
        vs.append(Violation(("C17", rel, cls), detail, case, {"relation": rel, "class": cls}))

    try:
        if mode == "sdl":
            s = build_schema(g2.to_sdl(m, order))
        else:
            s = g2.build(m)
        pre = validate_schema(s)
    except Exception as e:  # noqa: BLE001
        bad("generator-invalid", f"could not construct the generated schema: {e!r}")
        return vs
    if pre:
        bad("generator-invalid", f"generated schema is invalid: {pre[0].message}")
        return vs
    try:
        t = print_schema(s)
    except Exception as e:  # noqa: BLE001
        bad("print-raises", f"{e!r}")
        return vs
    try:
        s2 = build_schema(t)
    except Exception as e:  # noqa: BLE001
        bad("rebuild-raises", f"{type(e).__name__}: {str(e)[:300]}; printed text: {t[:600]!r}")
        return vs
    errs = validate_schema(s2)
    if errs:
        bad("rebuilt-invalid", f"{errs[0].message}")
    t2 = print_schema(s2)
    if t2 != t:
        bad("print-not-fixed-point", _first_line_diff(t, t2))
    try:
        ch = find_schema_changes(s, s2) + find_schema_changes(s2, s)
        if ch:
            bad("schema-changes", f"{ch[0].type.name}: {ch[0].description}")
    except Exception as e:  # noqa: BLE001
        bad("find-schema-changes-raises", f"{e!r}")
    d = schema_view.diff(schema_view.view(s), schema_view.view(s2))
    if d:
        bad("structural-diff", d)
    # model vs rebuilt schema: every description and deprecation reason, character for character
    d2 = _model_text_diff(m, s2)
    if d2:
        bad("model-text-diff", d2)
    return vs


def _first_line_diff(a, b):
    la, lb = a.split("\n"), b.split("\n")
    for i, (x, y) in enumerate(zip(la, lb)):
        if x != y:
            return f"line {i + 1}: {x!r} != {y!r}"
    return f"length {len(la)} vs {len(lb)} lines"


def _model_text_diff(m, s):
    def chk(where, want, got):
        if want != got:
            return f"{where}: model has {want!r}, rebuilt schema has {got!r}"
        return None

    for key in ("scalars", "enums", "inputs", "interfaces", "objects", "unions"):
        for x in m[key]:
            t = s.type_map.get(x["name"])
            if t is None:
                return f"type {x['name']} missing"
            r = chk(f"{x['name']}.description", x["desc"], t.description)
            if r:
                return r
            for v in x.get("values", []):
                ev = t.values[v["name"]]
                r = chk(f"{x['name']}.{v['name']}.description", v["desc"], ev.description) or \
                    chk(f"{x['name']}.{v['name']}.deprecation", v["dep"], ev.deprecation_reason)
                if r:
                    return r
            for f in x.get("fields", []):
                tf = t.fields[f["name"]]
                r = chk(f"{x['name']}.{f['name']}.description", f["desc"], tf.description) or \
                    chk(f"{x['name']}.{f['name']}.deprecation", f["dep"], tf.deprecation_reason)
                if r:
                    return r
                for a in f.get("args", []):
                    ta = tf.args[a["name"]]
                    r = chk(f"{x['name']}.{f['name']}({a['name']}).description", a["desc"],
                            ta.description) or \
                        chk(f"{x['name']}.{f['name']}({a['name']}).deprecation", a["dep"],
                            ta.deprecation_reason)
                    if r:
                        return r
    for d in m["directives"]:
        td = s.get_directive(d["name"])
        if td is None:
            return f"directive {d['name']} missing"
        r = chk(f"@{d['name']}.description", d["desc"], td.description) or \
            chk(f"@{d['name']}.deprecation", d.get("dep"), td.deprecation_reason)
        if r:
            return r
        for a in d["args"]:
            ta = td.args[a["name"]]
            r = chk(f"@{d['name']}({a['name']}).description", a["desc"], ta.description) or \
                chk(f"@{d['name']}({a['name']}).deprecation", a["dep"], ta.deprecation_reason)
            if r:
                return r
    return None


def _models(nex):
    def fn(ctx, shard, nshards):
        def dec(c):
            return {"model": dict(g2.g_model(c)), "order": c.ints(8) if c.chance(128) else [],
                    "mode": c.choose(["sdl", "prog"]),
                    "dep_dirs": [g2.g_dep(c, 128) for _ in range(3)] if c.chance(60) else []}

        def body(case):
            vs = eval_model(case["model"], case["order"], case["mode"], case["dep_dirs"])
            ctx.count()
            if any(x is not None for x in case["dep_dirs"][:len(case["model"]["directives"])]):
                ctx.cls("deprecated-directive")
            ctx.cls("mode:" + case["mode"])
            cls = text_class(g2.as_model(case["model"]))
            ctx.cls("text:" + cls)
            if nontrivial(g2.as_model(case["model"])):
                ctx.nontriv(case["model"])
                ctx.sample(cls + ":" + case["mode"], case)
            ctx.check(vs)

        given_run(ctx, from_bytes(dec, 1024), body, max_examples=nex)

    return fn


def subchecks(tier):
    if tier == "quick":
        return [Sub("models", _models(1500), shards=14)]
    return [Sub("models", _models(25000), shards=16)]


def replay(case):
    return eval_model(case["model"], case["order"], case["mode"], case.get("dep_dirs", ()))
