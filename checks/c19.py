"""C19 - schema transformations preserve meaning: extend equals build, sort only reorders, diff is sound.

Sub-checks
  extend  a generated model is split into base SDL A and extension SDL B (extension fields, interface
          implementations, union members, enum values, optional input fields, directive definitions,
          operation types, scalar @specifiedBy, directive-only extensions, whole new types):
          extend_schema(build_schema(A), parse(B)) vs build_schema(A + B): equal sorted prints, no
          schema changes, equal structural views; base schema (print and type objects) unchanged;
          a document that adds nothing returns the base object itself
  sort    lexicographic_sort_schema: no changes against the original either way, idempotent, sorted
          order is non-decreasing, structural view equal up to order
  diff    find_schema_changes(s, s) == []; for valid single-edit mutants: reported changes imply
          different printed forms, and an edit of a detectable kind that changes the printed form is
          reported in at least one direction
"""

from __future__ import annotations

import copy
import re

from vkit.core import Sub, Violation, given_run
from vkit.gen import g2, g2x
from vkit.gen.choice import from_bytes
from vkit.ref import schema_view

ID = "C19"
RULE = (
    "extend: generated (base, extension) SDL pairs where the extension adds fields / interface "
    "implementations / union members / enum values / optional input fields / directive definitions / "
    "operation types / specifiedBy / applied directives / whole new types to a drawn subset of types, "
    "definitions in drawn order; sort and diff: generated schemas and single-edit mutants. Non-trivial: "
    "the extension touches >= 2 kinds of element (extend) or the edit changes the printed form (diff). "
    "Distinct by hash of (model, split) / (model, edit)."
)
ASSUMPTIONS = [
    "extension-added input fields are optional (a required one would invalidate existing defaults of the base)",
    "type order of the two results is compared after lexicographic_sort_schema; field/argument/value/member order is compared exactly",
]


def split_model(c, m):
    """(base model, extension SDL parts, kinds touched). The union of both is model m plus new types."""
    m = g2.as_model(copy.deepcopy(dict(m)))
    base = copy.deepcopy(dict(m))
    bm = g2.as_model(base)
    ext = []
    kinds = set()
    defaults_text = repr([x for x in _all_defaults(m)])
    # object fields and whole interface implementations
    for o, bo in zip(m["objects"], base["objects"]):
        iface_fields = {f["name"] for i in o["interfaces"] for f in m.get(i)["fields"]}
        move_impl = bool(o["interfaces"]) and c.chance(100)
        moved = []
        keep = []
        for f in o["fields"]:
            if f["name"] in iface_fields:
                (moved if move_impl else keep).append(f)
            elif f["name"] != "id" and c.chance(80):
                moved.append(f)
            else:
                keep.append(f)
        if not keep:
            keep, moved = moved[:1], moved[1:]
        if moved or move_impl:
            bo["fields"] = keep
            impl = ""
            if move_impl:
                bo["interfaces"] = []
                impl = " implements " + " & ".join(o["interfaces"])
                kinds.add("implements")
            body = "\n".join(_field_sdl(m, f) for f in moved)
            ext.append(f"extend type {o['name']}{impl}" + (f" {{\n{body}\n}}" if moved else ""))
            if moved:
                kinds.add("object-fields")
    for i, bi in zip(m["interfaces"], base["interfaces"]):
        own = [f for f in i["fields"] if not any(f["name"] == pf["name"] for p in i["interfaces"]
                                                for pf in m.get(p)["fields"])]
        # an interface field may only move if every implementer's copy moves too: keep it simple and
        # only move fields of interfaces that nothing implements
        used = any(i["name"] in t["interfaces"] for t in m["objects"] + m["interfaces"])
        if i["interfaces"] and c.chance(128):
            # the implements clause of an interface moves into an extension (its implementers already list the
            # inherited interfaces themselves, so the base schema stays valid)
            bi["interfaces"] = []
            ext.append(f"extend interface {i['name']} implements " + " & ".join(i["interfaces"]))
            kinds.add("interface-implements")
        if not used and len(own) > 1 and c.chance(128):
            f = own[-1]
            bi["fields"] = [x for x in bi["fields"] if x["name"] != f["name"]]
            ext.append(f"extend interface {i['name']} {{\n{_field_sdl(m, f)}\n}}")
            kinds.add("interface-fields")
    for e, be in zip(m["enums"], base["enums"]):
        movable = [v for v in e["values"][1:] if repr(v["name"]) not in defaults_text]
        moved = [v for v in movable if c.chance(110)]
        if moved:
            be["values"] = [v for v in e["values"] if v not in moved]
            body = "\n".join(f"{g2._d(v['desc'], '  ')}  {v['name']}{g2._dep(v['dep'])}" for v in moved)
            ext.append(f"extend enum {e['name']} {{\n{body}\n}}")
            kinds.add("enum-values")
    for u, bu in zip(m["unions"], base["unions"]):
        moved = [t for t in u["types"][1:] if c.chance(128)]
        if moved:
            bu["types"] = [t for t in u["types"] if t not in moved]
            ext.append(f"extend union {u['name']} = {' | '.join(moved)}")
            kinds.add("union-members")
    for io, bio in zip(m["inputs"], base["inputs"]):
        movable = [f for f in io["fields"][1:]
                   if (not g2.is_nn(f["type"]) or f["default"] is not None)
                   and repr(f["name"]) not in defaults_text]
        moved = [f for f in movable if c.chance(110)]
        if moved:
            bio["fields"] = [f for f in io["fields"] if f not in moved]
            body = "\n".join(g2._iv(m, f, "  ") for f in moved)
            ext.append(f"extend input {io['name']} {{\n{body}\n}}")
            kinds.add("input-fields")
    moved_dirs = [d for d in m["directives"] if c.chance(90)]
    if moved_dirs:
        base["directives"] = [d for d in m["directives"] if d not in moved_dirs]
        all_defs = dict(g2.definitions(m))
        for d in moved_dirs:
            ext.append(all_defs["@" + d["name"]])
        kinds.add("directives")
    for s, bs in zip(m["scalars"], base["scalars"]):
        if s["url"] is not None and c.chance(128):
            bs["url"] = None
            ext.append(f"extend scalar {s['name']} @specifiedBy(url: {g2.q(s['url'])})")
            kinds.add("specified-by")
    # operation types through `extend schema`
    names = {"query": "Query", "mutation": "Mutation", "subscription": "Subscription"}
    for op in ("mutation", "subscription"):
        n = m[op]
        if n is not None and n != names[op] and c.chance(150):
            others_default = all(m[o2] in (None, names[o2]) for o2 in names if o2 != op)
            base[op] = None
            if not others_default:
                base["force_schema_block"] = True
            ext.append(f"extend schema {{ {op}: {n} }}")
            kinds.add("operation-type")
            break
    # directive-only extensions (applied directives are not printed, but exercise every extension path)
    for d in base["directives"]:
        if d["repeatable"] is not None and not any(g2.is_nn(a["type"]) and a["default"] is None
                                                    for a in d["args"]):
            for loc, kw, pool in (("SCALAR", "scalar", m["scalars"]), ("OBJECT", "type", m["objects"]),
                                  ("ENUM", "enum", m["enums"]), ("UNION", "union", m["unions"]),
                                  ("INPUT_OBJECT", "input", m["inputs"]),
                                  ("INTERFACE", "interface", m["interfaces"])):
                if loc in d["locations"] and pool and c.chance(150):
                    t = c.choose(pool)
                    ext.append(f"extend {kw} {t['name']} @{d['name']}")
                    kinds.add("applied-directive")
    # whole new types
    if c.chance(140):
        target = c.choose(m["objects"])
        new = c.choose([
            ("type NewT {\n  id: ID\n  back: " + target["name"] + "\n}", "NewT"),
            ("enum NewE {\n  X\n  Y\n}", "NewE"),
            ("scalar NewS", "NewS"),
            ("interface NewI {\n  id: ID\n}", "NewI"),
            ("union NewU = " + target["name"], "NewU"),
        ])
        ext.append(new[0])
        ext.append(f"extend type {target['name']} {{\n  newField(a: Int = 1): {new[1]}\n}}")
        kinds.add("new-type")
        if c.chance(128):
            ext.append("input NewIn {\n  a: Int = 3\n  self: [NewIn!]\n}")
    return base, ext, kinds


def _all_defaults(m):
    for key in ("inputs", "interfaces", "objects", "directives"):
        for x in m[key]:
            for f in x.get("fields", []) + x.get("args", []):
                if f.get("default") is not None:
                    yield f["default"][1]
                for a in f.get("args", []):
                    if a.get("default") is not None:
                        yield a["default"][1]


def _field_sdl(m, f):
    return (f"{g2._d(f['desc'], '  ')}  {f['name']}{g2._args(m, f['args'], '  ')}: "
            f"{g2.type_str(f['type'])}{g2._dep(f['dep'])}")


def sorted_view(schema):
    v = schema_view.view(schema)
    v["types"] = sorted(v["types"], key=lambda t: t[1])
    v["directives"] = sorted(v["directives"], key=lambda d: d[0])
    return v


def eval_extend(base, ext_parts, a_order, b_order):
    from graphql import build_schema, parse, print_schema, validate_schema
    from graphql.utilities import extend_schema, find_schema_changes, lexicographic_sort_schema

    case = {"base": dict(base), "ext": ext_parts, "a_order": a_order, "b_order": b_order}
    vs = []

    def bad(rel, detail):
        vs.append(Violation(("C19", rel), detail, case, {"relation": rel}))

    a_text = g2.to_sdl(base, a_order)
    parts = [ext_parts[i] for i in g2._perm(len(ext_parts), b_order)] if b_order else list(ext_parts)
    b_text = "\n\n".join(parts)
    try:
        sa = build_schema(a_text)
        if validate_schema(sa):
            return vs, "base-invalid"
    except Exception as e:  # noqa: BLE001
        return vs, "generator:" + type(e).__name__
    try:
        u = build_schema(a_text + "\n" + b_text)
        uerrs = validate_schema(u)
    except Exception as e:  # noqa: BLE001
        bad("build-of-union-raises", f"{type(e).__name__}: {e}\nB:\n{b_text}")
        return vs, "raised"
    if uerrs:
        # base and extension are valid by construction, so the schema built from both must be valid
        bad("build-of-union-invalid", f"{uerrs[0].message}\nB:\n{b_text}")
        return vs, "union-invalid"
    before_print = print_schema(sa)
    before_ids = {n: id(t) for n, t in sa.type_map.items()}
    before_view = schema_view.view(sa)
    try:
        e = extend_schema(sa, parse(b_text)) if b_text.strip() else sa
    except Exception as ex:  # noqa: BLE001
        bad("extend-raises", f"{type(ex).__name__}: {ex}\nA:\n{a_text}\nB:\n{b_text}")
        return vs, "raised"
    if print_schema(sa) != before_print or {n: id(t) for n, t in sa.type_map.items()} != before_ids \
            or schema_view.view(sa) != before_view:
        bad("base-mutated", "extend_schema changed the schema object it was given")
    eerrs = validate_schema(e)
    if eerrs:
        bad("extended-invalid", f"{eerrs[0].message}\nB:\n{b_text}")
    pe = print_schema(lexicographic_sort_schema(e))
    pu = print_schema(lexicographic_sort_schema(u))
    if pe != pu:
        bad("extend-vs-build-print", _line_diff(pe, pu) + f"\nB:\n{b_text}")
    try:
        ch = find_schema_changes(e, u) + find_schema_changes(u, e)
        if ch:
            bad("extend-vs-build-changes", f"{ch[0].type.name}: {ch[0].description}\nB:\n{b_text}")
    except Exception as ex:  # noqa: BLE001
        bad("find-schema-changes-raises", repr(ex))
    d = schema_view.diff(sorted_view(e), sorted_view(u))
    if d:
        bad("extend-vs-build-structure", d + f"\nB:\n{b_text}")
    # a document that adds nothing returns the original
    try:
        same = extend_schema(sa, parse("{ __typename } query Q { a: __typename }"))
        if same is not sa:
            bad("noop-extension-copies", "extending with executable definitions only returned a new object")
    except Exception as ex:  # noqa: BLE001
        bad("noop-extension-raises", repr(ex))
    return vs, "ok"


def eval_sort(m, mode):
    from graphql import build_schema, print_schema
    from graphql.pyutils import natural_comparison_key
    from graphql.utilities import find_schema_changes, lexicographic_sort_schema

    case = {"model": dict(m), "mode": mode}
    vs = []

    def bad(rel, detail):
        vs.append(Violation(("C19", rel), detail, case, {"relation": rel}))

    try:
        s = build_schema(g2.to_sdl(m)) if mode == "sdl" else g2.build(m)
    except Exception:  # noqa: BLE001
        return vs
    before = print_schema(s)
    try:
        t = lexicographic_sort_schema(s)
        t2 = lexicographic_sort_schema(t)
    except Exception as e:  # noqa: BLE001
        bad("sort-raises", repr(e))
        return vs
    if print_schema(s) != before:
        bad("sort-mutates-input", "the schema given to lexicographic_sort_schema changed")
    if print_schema(t2) != print_schema(t):
        bad("sort-not-idempotent", _line_diff(print_schema(t2), print_schema(t)))
    ch = find_schema_changes(s, t) + find_schema_changes(t, s) + find_schema_changes(s, s)
    if ch:
        bad("sort-changes-schema", f"{ch[0].type.name}: {ch[0].description}")
    # only ordering changed: structural views equal once every list is ordered
    if _deep_sorted(schema_view.view(s)) != _deep_sorted(schema_view.view(t)):
        bad("sort-changes-structure", str(schema_view.diff(_deep_sorted(schema_view.view(s)),
                                                           _deep_sorted(schema_view.view(t)))))
    # printed order is non-decreasing under the documented natural order
    v = schema_view.view(t)
    names = [x[1] for x in v["types"]]
    if names != sorted(names, key=natural_comparison_key):
        bad("sort-order-types", f"type order {names}")
    for x in v["types"]:
        if x[0] in ("object", "interface"):
            fn = [f[0] for f in x[4]]
            if fn != sorted(fn, key=natural_comparison_key):
                bad("sort-order-fields", f"{x[1]} fields {fn}")
            for f in x[4]:
                an = [a[0] for a in f[4]]
                if an != sorted(an, key=natural_comparison_key):
                    bad("sort-order-args", f"{x[1]}.{f[0]} args {an}")
        elif x[0] == "enum":
            vn = [e[0] for e in x[3]]
            if vn != sorted(vn, key=natural_comparison_key):
                bad("sort-order-values", f"{x[1]} values {vn}")
    return vs


def _deep_sorted(v):
    if isinstance(v, dict):
        return {k: _deep_sorted(x) for k, x in v.items()}
    if isinstance(v, list):
        items = [_deep_sorted(x) for x in v]
        # lists of named entries are order-insensitive here; type strings / values keep their place
        if items and all(isinstance(x, list) and x and isinstance(x[0], str) for x in items):
            return sorted(items, key=repr)
        if items and all(isinstance(x, str) for x in items):
            return sorted(items)
        return items
    return v


BENIGN = ["add-field", "remove-field", "field-type", "add-enum-value", "remove-enum-value",
          "add-union-member", "remove-union-member", "add-arg", "remove-arg", "arg-default",
          "description", "repeatable", "add-location", "add-directive", "remove-directive",
          "add-optional-input-field", "remove-interface"]
DETECTABLE = set(BENIGN)


def benign_edit(c, m):
    m = copy.deepcopy(dict(m))
    kind = c.choose(BENIGN)
    objs = m["objects"]
    try:
        if kind == "add-field":
            t = c.choose(objs + m["interfaces"][:0])
            t["fields"].append({"name": "zz_new", "type": "Int", "args": [], "desc": None, "dep": None})
            return m, kind, t["name"]
        if kind == "remove-field":
            t = c.choose([o for o in objs if len(o["fields"]) > 1 and not o["interfaces"]])
            f = t["fields"].pop()
            return m, kind, t["name"]
        if kind == "field-type":
            t = c.choose([o for o in objs if not o["interfaces"]])
            f = c.choose(t["fields"])
            f["type"] = ["list", f["type"]]
            return m, kind, t["name"]
        if kind == "add-enum-value":
            e = c.choose(m["enums"])
            e["values"].append({"name": "ZZ_NEW", "desc": None, "dep": None})
            return m, kind, e["name"]
        if kind == "remove-enum-value":
            e = c.choose([e for e in m["enums"] if len(e["values"]) > 1])
            e["values"].pop()
            return m, kind, e["name"]
        if kind == "add-union-member":
            u = c.choose(m["unions"])
            cand = [o["name"] for o in objs if o["name"] not in u["types"]]
            u["types"].append(c.choose(cand))
            return m, kind, u["name"]
        if kind == "remove-union-member":
            u = c.choose([u for u in m["unions"] if len(u["types"]) > 1])
            u["types"].pop()
            return m, kind, u["name"]
        if kind == "add-arg":
            t = c.choose([o for o in objs if not o["interfaces"]])
            f = c.choose(t["fields"])
            f["args"].append({"name": "zz_arg", "type": c.choose(["Int", ["nn", "Int"]]),
                              "default": None, "desc": None, "dep": None})
            return m, kind, t["name"]
        if kind == "remove-arg":
            cands = [(o, f) for o in objs if not o["interfaces"] for f in o["fields"] if f["args"]]
            o, f = c.choose(cands)
            f["args"].pop()
            return m, kind, o["name"]
        if kind == "arg-default":
            cands = [(o, f, a) for o in objs for f in o["fields"] for a in f["args"]
                     if g2.named(a["type"]) == "Int" and isinstance(a["type"], str)]
            o, f, a = c.choose(cands)
            a["default"] = ["v", 12345 if a["default"] is None or a["default"][1] != 12345 else 54321]
            return m, kind, o["name"]
        if kind == "description":
            t = c.choose(objs)
            t["desc"] = (t["desc"] or "") + " changed"
            return m, kind, t["name"]
        if kind == "repeatable":
            d = c.choose(m["directives"])
            d["repeatable"] = not d["repeatable"]
            return m, kind, "@" + d["name"]
        if kind == "add-location":
            d = c.choose(m["directives"])
            new = [l for l in g2.EXEC_LOCS + g2.TS_LOCS if l not in d["locations"]]
            d["locations"].append(c.choose(new))
            return m, kind, "@" + d["name"]
        if kind == "add-directive":
            m["directives"].append({"name": "zz_dir", "desc": None, "args": [], "repeatable": False,
                                    "locations": ["FIELD"]})
            return m, kind, "@zz_dir"
        if kind == "remove-directive":
            d = m["directives"].pop()
            return m, kind, "@" + d["name"]
        if kind == "add-optional-input-field":
            io = c.choose([i for i in m["inputs"] if not i["oneof"]])
            io["fields"].append({"name": "zz_opt", "type": "Int", "default": None, "desc": None, "dep": None})
            return m, kind, io["name"]
        if kind == "remove-interface":
            o = c.choose([o for o in objs if o["interfaces"]])
            o["interfaces"] = []
            return m, kind, o["name"]
    except (IndexError, KeyError):
        return None
    return None


def eval_diff(m, m2, kind, el, mode):
    from graphql import build_schema, print_schema
    from graphql.utilities import find_schema_changes, lexicographic_sort_schema

    case = {"model": dict(m), "edited": dict(m2), "kind": kind, "element": el, "mode": mode}
    vs = []

    def bad(rel, detail):
        vs.append(Violation(("C19", rel, kind), detail, case, {"relation": rel, "edit": kind}))

    try:
        if mode == "sdl":
            s1 = build_schema(g2.to_sdl(m), assume_valid_sdl=True)
            s2 = build_schema(g2.to_sdl(m2), assume_valid_sdl=True)
        else:
            s1, s2 = g2.build(m), g2.build(m2)
    except Exception:  # noqa: BLE001
        return vs, False
    from graphql import validate_schema

    if validate_schema(s1) or validate_schema(s2):
        return vs, False  # the change detector is specified for valid schemas
    try:
        self_changes = find_schema_changes(s1, s1) + find_schema_changes(s2, s2)
        ch = find_schema_changes(s1, s2)
        rev = find_schema_changes(s2, s1)
    except Exception as e:  # noqa: BLE001
        bad("find-schema-changes-raises", f"{type(e).__name__}: {e}")
        return vs, False
    if self_changes:
        bad("self-diff", f"{self_changes[0].description}")
    try:
        p1 = print_schema(lexicographic_sort_schema(s1))
        p2 = print_schema(lexicographic_sort_schema(s2))
    except Exception:  # noqa: BLE001
        return vs, False
    differ = p1 != p2
    if (ch or rev) and not differ:
        bad("change-without-difference", f"{(ch + rev)[0].description} but the printed schemas are equal")
    if differ and kind in DETECTABLE and not (ch or rev):
        bad("difference-not-reported", f"edit {kind} at {el} changes the printed schema but no change "
            "is reported in either direction")
    return vs, differ


def _line_diff(a, b):
    la, lb = a.split("\n"), b.split("\n")
    for i, (x, y) in enumerate(zip(la, lb)):
        if x != y:
            return f"line {i + 1}: {x!r} != {y!r}"
    return f"{len(la)} vs {len(lb)} lines"


def _extend(nex):
    def fn(ctx, shard, nshards):
        def dec(c):
            m = g2.g_model(c)
            base, ext, kinds = split_model(c, m)
            return {"base": base, "ext": ext, "kinds": sorted(kinds),
                    "a_order": c.ints(6) if c.chance(128) else [],
                    "b_order": c.ints(6) if c.chance(128) else []}

        def body(case):
            vs, status = eval_extend(g2.as_model(case["base"]), case["ext"], case["a_order"],
                                     case["b_order"])
            ctx.count()
            ctx.cls("status:" + status)
            for k in case["kinds"]:
                ctx.cls("ext:" + k)
            if status == "ok" and len(case["kinds"]) >= 2:
                ctx.nontriv({"b": case["base"], "e": case["ext"]}, "+".join(case["kinds"])[:60])
            ctx.check(vs)

        given_run(ctx, from_bytes(dec, 1536), body, max_examples=nex)

    return fn


def _sort_diff(nex):
    def fn(ctx, shard, nshards):
        def dec(c):
            m = dict(g2.g_model(c))
            edits = []
            for _ in range(3):
                r = benign_edit(c, m)
                if r is not None:
                    edits.append([dict(r[0]), r[1], r[2]])
            return {"model": m, "edits": edits, "mode": c.choose(["sdl", "prog"])}

        def body(case):
            m = g2.as_model(case["model"])
            vs = eval_sort(m, case["mode"])
            ctx.count()
            for m2, kind, el in case["edits"]:
                mode = case["mode"]
                if mode == "sdl" and any(not d["locations"] for d in m2["directives"]):
                    mode = "prog"
                v2, differ = eval_diff(m, g2.as_model(m2), kind, el, mode)
                vs += v2
                ctx.count()
                ctx.cls("edit:" + kind)
                if differ:
                    ctx.nontriv({"m": case["model"], "k": kind, "e": el}, "edit:" + kind)
            ctx.check(vs)

        given_run(ctx, from_bytes(dec, 1536), body, max_examples=nex)

    return fn


def subchecks(tier):
    if tier == "quick":
        return [Sub("extend", _extend(900), shards=8, weight=2),
                Sub("sort_diff", _sort_diff(700), shards=6, weight=1)]
    return [Sub("extend", _extend(15000), shards=16, weight=2),
            Sub("sort_diff", _sort_diff(10000), shards=16, weight=1)]


def replay(case):
    if "ext" in case:
        return eval_extend(g2.as_model(case["base"]), case["ext"], case["a_order"], case["b_order"])[0]
    if "edited" in case:
        return eval_diff(g2.as_model(case["model"]), g2.as_model(case["edited"]), case["kind"],
                         case["element"], case["mode"])[0]
    return eval_sort(g2.as_model(case["model"]), case["mode"])
