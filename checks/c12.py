"""C12 - validation is a deterministic, compositional function of document and schema.

Documents: G3 valid documents, G3m near-valid mutants, conflict-seeking documents and grammar-random
documents (G1) over a generated schema; parsed with and without locations.
  union        validate(rules=S) == multiset union over r in S of validate(rules=[r]); within one rule
               the order is preserved; S = all specified rules, random subsets, random orderings
  metamorphic  the ordered message list is unchanged by print_ast -> parse, by a re-layout of the
               source, and by adding descriptions to operations / fragments / variable definitions
  idempotent   a second call returns the same list; document and schema are not modified
  introspection documents over the introspection types (__schema / __type with nested fields, interfaces,
               possibleTypes, inputFields, ofType, through inline fragments, named fragments and fragment
               cycles, to list depth 5): the stratum in which MaxIntrospectionDepthRule reports and skips;
               the rule pool of the subsets also holds NoDeprecatedCustomRule and
               NoSchemaIntrospectionCustomRule
  limit        with max_errors = n: at most n errors plus one abort notice, which is present iff the
               unlimited list is longer than n, and the first n equal the unlimited list's prefix
"""

from __future__ import annotations

import copy
from collections import Counter

from vkit.core import Sub, Violation, given_run
from vkit.gen import g1, g2, g3
from vkit.gen.choice import from_bytes

ID = "C12"
RULE = (
    "per scenario: a generated schema and a document from {type-directed valid, one of 12 near-valid "
    "mutations, conflict-seeking, grammar-random over the schema's names}; rule sets = all specified rules, "
    "every single rule, 2 random subsets in random order; max_errors in {0,1,2,5}; parsed with and without "
    "locations. Non-trivial: >= 2 rules report on the document, or fragments/variables are shared between "
    "operations. Distinct by document hash."
)
ASSUMPTIONS = [
    "locations are not compared across re-layouts (only messages)",
    "the abort notice is recognised by its documented text",
]

ABORT = "Too many validation errors, error limit reached. Validation aborted."


def key(e):
    return (e.message, tuple((l.line, l.column) for l in (e.locations or [])))


def is_subsequence(sub, seq):
    it = iter(seq)
    return all(any(x == y for y in it) for x in sub)


def add_descriptions(tree):
    t = copy.deepcopy(tree)
    for d in t["defs"]:
        if d["k"] == "op":
            if d.get("short"):
                d.update({"short": False, "desc": None, "op": "query", "n": None, "vars": [], "dirs": []})
            d["desc"] = {"k": "str", "v": "operation description"}
            for v in d["vars"]:
                v["desc"] = {"k": "str", "raw": "variable\n description"}
        elif d["k"] == "frag":
            d["desc"] = {"k": "str", "v": "fragment description"}
    return t


def eval_case(case):
    from graphql import parse, print_ast, print_schema, validate
    from graphql.validation import specified_rules

    m = g2.as_model(case["model"])
    tree = case["tree"]
    vs = []

    def bad(rel, detail):
        vs.append(Violation(("C12", rel), detail, dict(case), {"relation": rel}))

    schema = g2.build(m)
    schema_before = print_schema(schema)
    flags = dict(experimental_fragment_arguments=bool(tree.get("frag_args")))
    text = g1.layout(g1.to_tokens(tree), case["layout"])
    try:
        doc = parse(text, no_location=case["no_location"], **flags)
    except Exception:  # noqa: BLE001
        return vs, 0, False
    rules = list(specified_rules)
    if case.get("custom_rules"):
        from graphql.validation import NoDeprecatedCustomRule, NoSchemaIntrospectionCustomRule
        rules += [NoDeprecatedCustomRule, NoSchemaIntrospectionCustomRule]
    before = g1.sig(doc)
    n = 0
    try:
        full = validate(schema, doc, rules, max_errors=100000)
    except Exception as e:  # noqa: BLE001
        bad("validate-raises", f"{type(e).__name__}: {e} for {text!r}")
        return vs, 1, False
    n += 1
    solo = {}
    for r in rules:
        try:
            solo[r] = validate(schema, doc, [r], max_errors=100000)
        except Exception as e:  # noqa: BLE001
            bad("validate-raises", f"rule {r.__name__} alone: {type(e).__name__}: {e} for {text!r}")
            return vs, n, False
        n += 1
    reporting = [r for r in rules if solo[r]]

    def compare(rule_list, combined, label):
        want = Counter()
        for r in rule_list:
            want.update(key(e) for e in solo[r])
        got = Counter(key(e) for e in combined)
        if got != want:
            extra = list((got - want).elements())[:2]
            missing = list((want - got).elements())[:2]
            bad("union", f"[{label}] combined run has extra {extra} / lacks {missing}; "
                f"rules {[r.__name__ for r in rule_list if solo[r]]}; {text!r}")
            return
        for r in rule_list:
            if not is_subsequence([key(e) for e in solo[r]], [key(e) for e in combined]):
                bad("order-within-rule", f"[{label}] errors of {r.__name__} are reordered; {text!r}")
                return

    compare(rules, full, "all specified rules")
    for idxs in case["subsets"]:
        sub = [rules[i % len(rules)] for i in idxs]
        sub = list(dict.fromkeys(sub))
        try:
            combined = validate(schema, doc, sub, max_errors=100000)
        except Exception as e:  # noqa: BLE001
            bad("validate-raises", f"subset: {type(e).__name__}: {e}")
            continue
        n += 1
        compare(sub, combined, "subset " + ",".join(r.__name__[:-4] for r in sub)[:120])
    # idempotence and immutability
    again = validate(schema, doc, rules, max_errors=100000)
    n += 1
    if [key(e) for e in again] != [key(e) for e in full]:
        bad("not-idempotent", f"second call differs for {text!r}")
    if g1.sig(doc) != before:
        bad("document-mutated", f"validate changed the document {text!r}")
    if print_schema(schema) != schema_before:
        bad("schema-mutated", "validate changed the schema")
    msgs = [e.message for e in full]
    # metamorphic: reprint, relayout, descriptions
    variants = []
    try:
        variants.append(("reprint", parse(print_ast(doc), no_location=case["no_location"], **flags)))
    except Exception as e:  # noqa: BLE001
        bad("reprint-raises", repr(e))
    variants.append(("relayout", parse(g1.layout(g1.to_tokens(tree), case["layout2"]),
                                       no_location=case["no_location"], **flags)))
    try:
        variants.append(("descriptions", parse(g1.layout(g1.to_tokens(add_descriptions(tree)), []),
                                           no_location=case["no_location"], **flags)))
    except Exception:  # noqa: BLE001
        pass
    for label, d2 in variants:
        try:
            m2 = [e.message for e in validate(schema, d2, rules, max_errors=100000)]
        except Exception as e:  # noqa: BLE001
            bad("validate-raises", f"{label}: {type(e).__name__}: {e}")
            continue
        n += 1
        if label == "descriptions":
            # a shorthand query becomes `query` so that it can carry a description: messages that
            # quote nothing of the layout are expected to be the same
            pass
        if m2 != msgs:
            i = next((i for i, (x, y) in enumerate(zip(m2, msgs)) if x != y), min(len(m2), len(msgs)))
            bad("metamorphic-" + label, f"message #{i}: {m2[i:i + 1]} vs {msgs[i:i + 1]} "
                f"({len(m2)} vs {len(msgs)}); {text!r}")
    # error limit
    for lim in (0, 1, 2, 5):
        try:
            limited = validate(schema, doc, rules, max_errors=lim)
        except Exception as e:  # noqa: BLE001
            bad("validate-raises", f"max_errors={lim}: {type(e).__name__}: {e}")
            continue
        n += 1
        lm = [e.message for e in limited]
        has_notice = bool(lm) and lm[-1] == ABORT
        body = lm[:-1] if has_notice else lm
        if len(body) > lim:
            bad("limit-exceeded", f"max_errors={lim} returned {len(body)} errors (+notice={has_notice}); {text!r}")
        elif has_notice != (len(msgs) > lim):
            bad("limit-notice", f"max_errors={lim}: notice={has_notice} but the unlimited list has "
                f"{len(msgs)} errors; {text!r}")
        elif body != msgs[:len(body)] or (has_notice and len(body) != lim):
            bad("limit-prefix", f"max_errors={lim}: {body} is not the first {lim} of {msgs[:lim + 1]}; {text!r}")
    nontrivial = len(reporting) >= 2 or (len([d for d in tree["defs"] if d["k"] == "op"]) >= 2 and any(
        d["k"] == "frag" for d in tree["defs"]))
    return vs, n, nontrivial


# introspection documents -------------------------------------------------------------------

_T_LISTS = ["fields", "interfaces", "possibleTypes", "inputFields"]
_T_LEAVES = ["name", "kind", "description", "specifiedByURL", "isOneOf", "__typename"]


def _fld(name, sel=None, args=None, alias=None):
    return {"k": "field", "alias": alias, "n": name, "args": args or [], "dirs": [], "sel": sel}


def g_introspection_tree(c):
    frags = {}

    def type_sel(depth, on="__Type"):
        """selections on __Type / __Field / __InputValue (on = current introspection type)"""
        out = []
        for _ in range(c.count(1, 3)):
            k = c.pick(10)
            if depth <= 0 or k <= 1:
                out.append(_fld(c.choose(_T_LEAVES if on == "__Type" else ["name", "description", "__typename"])))
            elif on != "__Type":
                out.append(_fld("type", type_sel(depth - 1)))
                if on == "__Field" and c.chance(80):
                    out.append(_fld("args", type_sel(depth - 1, "__InputValue"),
                                    args=[["includeDeprecated", {"k": "bool", "v": True}]] if c.chance(100) else []))
            elif k <= 6:
                n = c.choose(_T_LISTS)
                nxt = {"fields": "__Field", "inputFields": "__InputValue"}.get(n, "__Type")
                args = [["includeDeprecated", {"k": "bool", "v": bool(c.pick(2))}]] \
                    if n in ("fields", "inputFields") and c.chance(80) else []
                out.append(_fld(n, type_sel(depth - 1, nxt), args=args,
                                alias=c.choose(["x", "fields", None, None])))
            elif k == 7 and c.chance(128):
                out.append(_fld("ofType", type_sel(depth - 1)))
            elif k <= 8:
                out.append({"k": "inline", "on": on if c.chance(170) else None, "dirs": [],
                            "sel": type_sel(depth - 1, on)})
            else:
                name = f"F{on.strip('_')}{c.pick(3)}"
                if name not in frags:
                    frags[name] = None  # reserve: a spread inside its own body makes a cycle
                    frags[name] = {"k": "frag", "desc": None, "n": name, "vars": [], "on": on, "dirs": [],
                                   "sel": type_sel(depth - 1, on)}
                out.append({"k": "spread", "n": name, "args": None, "dirs": []})
        return out

    roots = []
    for i in range(c.count(1, 2)):
        if c.chance(128):
            roots.append(_fld("__schema", [_fld(c.choose(["types", "queryType", "mutationType"]),
                                                type_sel(c.count(2, 6)))], alias=f"s{i}"))
        else:
            roots.append(_fld("__type", type_sel(c.count(2, 6)), alias=f"t{i}" if c.chance(230) else None,
                              args=[["name", {"k": "str", "v": c.choose(["Query", "T0", "Nope"])}]]))
    op = {"k": "op", "short": True, "sel": roots} if c.chance(128) else \
        {"k": "op", "short": False, "desc": None, "op": "query", "n": "I", "vars": [], "dirs": [], "sel": roots}
    return {"k": "doc", "defs": [op] + [f for f in frags.values() if f], "frag_args": False,
            "dir_on_dir": False}


def g_case(c):
    m = g2.g_model(c)
    k = c.pick(11)
    stratum = "valid"
    if k <= 2:
        doc = g3.g_document(c, m, depth=3)
        tree = doc["tree"]
    elif k <= 6:
        doc = g3.g_document(c, m, depth=3)
        tree = doc["tree"]
        for _ in range(c.count(1, 3)):
            r = g3.mutate_document(c, m, doc)
            if r is not None:
                doc, kind = r
                tree = doc["tree"]
                stratum = "mutant"
    elif k <= 7:
        tree = g3.g_document(c, m, depth=3, collide=150)["tree"]
        stratum = "colliding"
    elif k == 10:
        tree = g_introspection_tree(c)
        stratum = "introspection"
    else:
        tree = g1.g_document(c, mode="exec", max_defs=3)
        tree["frag_args"] = False
        stratum = "grammar-random"
    if stratum in ("valid", "mutant") and c.chance(50):
        # an operation and a fragment may share a name (separate name spaces): anything keyed by definition
        # name alone confuses the two
        ops = [d for d in tree["defs"] if d["k"] == "op" and not d.get("short") and d.get("n")]
        frs = [d for d in tree["defs"] if d["k"] == "frag"]
        if ops and frs:
            old, new_name = frs[0]["n"], ops[0]["n"]

            def ren(sels):
                for s_ in sels or []:
                    if s_["k"] == "spread" and s_["n"] == old:
                        s_["n"] = new_name
                    elif s_.get("sel"):
                        ren(s_["sel"])

            for d in tree["defs"]:
                ren(d.get("sel"))
            frs[0]["n"] = new_name
            if c.chance(128):
                # the fragment first: caches are filled in document order
                tree["defs"] = [frs[0]] + [d for d in tree["defs"] if d is not frs[0]]
            stratum += "+same-name"
    return {"model": dict(m), "tree": tree, "layout": c.ints(4) if c.chance(100) else [],
            "layout2": c.ints(12), "no_location": c.chance(80), "stratum": stratum,
            "custom_rules": stratum == "introspection" or c.chance(60),
            "subsets": [c.ints(c.count(2, 6), 64) for _ in range(2)]}


def _cases(nex):
    def fn(ctx, shard, nshards):
        def body(case):
            vs, n, nt = eval_case(case)
            ctx.count(n)
            ctx.cls("stratum:" + case["stratum"])
            if nt:
                ctx.nontriv(case["tree"], case["stratum"])
            ctx.check(vs)

        given_run(ctx, from_bytes(g_case, 3072), body, max_examples=nex)

    return fn


def subchecks(tier):
    if tier == "quick":
        return [Sub("cases", _cases(450), shards=14)]
    return [Sub("cases", _cases(7000), shards=16)]


def replay(case):
    return eval_case(case)[0]
