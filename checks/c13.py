"""C13 - a document that passes validation cannot go wrong at execution time.

For generated schemas, documents accepted by validate() (type-directed documents and the *accepted*
subset of near-valid mutants, which is where a too-permissive rule shows) and variable values accepted
by variable coercion:
  conforming data  (the oracle only produces values that conform to the field types; natural nulls
                   only at nullable positions): no errors, except the one the specification defers to
                   run time - a nullable variable that is null reaching a non-null position that was
                   allowed because a default exists; the response has exactly the shape the selection
                   set and the types prescribe for the runtime types present (vkit/ref/shape.py)
  arbitrary data   (planted nulls, raising resolvers, ill-typed values, non-member runtime types):
                   every error sits at a position where the oracle handed out a planted fault or a
                   null at a non-null position - never at an argument, variable or field that
                   validation should have rejected
"""

from __future__ import annotations

import json

from checks import c02
from vkit.core import Sub, Violation, given_run
from vkit.gen import g2, g3
from vkit.gen.choice import from_bytes
from vkit.gen.g2 import is_nn
from vkit.harness.resolvers import make_field_resolver
from vkit.ref import execute as R5
from vkit.ref import shape

ID = "C13"
RULE = (
    "schemas from G2, documents from G3 plus 12 kinds of near-valid mutants (weakened variable types, "
    "perturbed literals, dropped arguments, retargeted type conditions, renamed fields, leaf/composite "
    "selection swaps, nullable variables inside list/object literals, colliding response keys, undeclared "
    "variables, unknown arguments); only documents validate() accepts are executed; variables accepted by "
    "get_variable_values; data oracle in conforming mode and with planted faults. Non-trivial: the document "
    "has >= 1 argument or variable and >= 1 fragment or abstract field, or is an accepted mutant. Distinct by "
    "hash of (document, variables, oracle)."
)
ASSUMPTIONS = [
    "the data oracle is the harness' own (vkit/ref/execute.py Oracle); 'conforming' means fault density 0",
    "runtime types of abstract positions are taken from the oracle's records (via the reference executor's path map)",
    "@skip/@include never receive a null `if`",
]


def corner_explains(m, fdef, arg_lits, vardefs, coerced):
    """The deferred-to-run-time exception: a nullable variable that is null at run time (given or by default)
    at a non-null position - an argument, an input object field or a list item, also inside a bare item that
    stands for a list of one - which validation allowed because the variable or the position has a default."""
    defs = {a["name"]: a for a in fdef["args"]}
    for name, lit in arg_lits:
        a = defs.get(name)
        if a is None:
            continue
        pos = []
        holder = [name, lit]
        g3._typed_positions(m, a["type"], lit, pos, holder, 1)
        for h, k, pt in pos:
            x = h[k]
            if x["k"] != "var" or not is_nn(pt):
                continue
            vd = vardefs.get(x["n"])
            if vd is not None and not is_nn(vd["t"]) and coerced.get(x["n"], "absent") is None:
                return True
    return False


def _directive_if_is_null(tree, coerced):
    found = []

    def walk(x):
        if isinstance(x, dict):
            for d in x.get("dirs") or []:
                if isinstance(d, dict) and d.get("n") in ("skip", "include"):
                    for n, v in d["args"]:
                        if n == "if" and v["k"] == "var" and coerced.get(v["n"], True) is None:
                            found.append(v["n"])
            for v in x.values():
                walk(v)
        elif isinstance(x, list):
            for v in x:
                walk(v)

    walk(tree)
    return bool(found)


def eval_request(env, op_name, vardefs, variables, oseed, density, case, mutant):
    from graphql import execute_sync
    from graphql.execution.values import get_variable_values

    vs = []
    cls = "mutant:" + mutant if mutant else "generated"

    def bad(rel, detail):
        vs.append(Violation(("C13", rel, cls), detail, case, {"relation": rel, "class": cls}))

    op_node = next(d for d in env.doc.definitions if getattr(d, "operation", None) is not None
                   and (op_name is None or (d.name and d.name.value == op_name)))
    vv = get_variable_values(env.schema, op_node.variable_definitions or (), variables)
    if isinstance(vv, list):
        return vs, "variables-rejected"
    oracle = R5.Oracle(env.m, oseed, density)
    log = []
    kind = next(k for n, k in c02.env_ops(env) if n == op_name)
    try:
        r = execute_sync(env.schema, env.doc, root_value=oracle.root(env.m[kind]),
                         variable_values=variables, operation_name=op_name,
                         field_resolver=make_field_resolver(oracle, log, env.out_names))
        f = r.formatted
    except Exception as e:  # noqa: BLE001
        bad("execute-raises", f"{type(e).__name__}: {e}; query {env.text!r} vars {variables!r}")
        return vs, "raised"
    ref = R5.execute(env.m, env.tree, op_name, vardefs, variables, R5.Oracle(env.m, oseed, density))
    errors = f.get("errors", [])
    if ref.get("request_error"):
        return vs, "reference-rejects-variables"
    if ref.get("ambiguous"):
        return vs, "scalar-defined"
    if _directive_if_is_null(env.tree, ref["variables"]):
        return vs, "directive-if-null"  # outside the specification's definition of CollectFields
    if density == 0:
        allowed = {json.dumps(p) for p, fdef, lits in ref["arg_errors"]
                   if corner_explains(env.m, fdef, lits, vardefs, ref["variables"])}
        for e in errors:
            if json.dumps(e.get("path")) not in allowed:
                bad("error-with-conforming-data", f"{e['message'][:200]} at {e.get('path')}; query "
                    f"{env.text!r} vars {variables!r} seed {oseed}")
                break
        if not errors and f.get("data") is not None:
            types = ref["types"]
            probs = shape.check(env.schema, env.doc, f["data"], ref["variables"], op_name,
                                runtime_type_of=lambda t, v, path: types.get(tuple(path)))
            if probs:
                bad("response-shape", f"{probs[0]}; query {env.text!r} vars {variables!r}")
    else:
        # arbitrary data: every error must be attributable to the data
        data_errors = {json.dumps(p) for p in ref["error_paths"]}
        arg_errors = {json.dumps(p) for p, fdef, lits in ref["arg_errors"]
                      if not corner_explains(env.m, fdef, lits, vardefs, ref["variables"])}
        for e in errors:
            pj = json.dumps(e.get("path"))
            if pj not in data_errors or pj in arg_errors:
                bad("error-not-attributable-to-data", f"{e['message'][:200]} at {e.get('path')}; query "
                    f"{env.text!r} vars {variables!r} seed {oseed} density {density}")
                break
    return vs, "ok"


def eval_scenario(sc):
    env = c02.Env(sc)
    mutant = sc.get("mutant")
    if not env.valid:
        return [], 0, "rejected-by-validation", []
    vs = []
    n = 0
    nt = []
    for oi, vi, di in sc["runs"]:
        op_name, _k = sc["doc"]["ops"][oi % len(sc["doc"]["ops"])]
        vardefs = sc["doc"]["vars"].get(op_name or "", {})
        varsets = sc["varsets"][op_name or ""]
        variables = varsets[vi % len(varsets)]
        oseed, density = sc["oracles"][di % len(sc["oracles"])]
        case = dict(sc, runs=[[oi, vi, di]])
        v1, status = eval_request(env, op_name, vardefs, variables, oseed, density, case, mutant)
        vs += v1
        if status == "ok":
            n += 1
            feats = sc["doc"]["features"]
            if mutant or (("argument" in feats or "variable" in feats) and (
                    "named-fragment" in feats or "abstract-field" in feats)):
                nt.append({"q": env.text, "v": variables, "o": [oseed, density]})
    return vs, n, "accepted-mutant" if mutant else "accepted", nt


def g_scenario(c):
    m = g2.g_model(c)
    doc = g3.g_document(c, m, depth=3)
    mutant = None
    if c.chance(150):
        r = g3.mutate_document(c, m, doc)
        if r is not None:
            doc, mutant = r
    varsets = {}
    for name, vars_ in doc["vars"].items():
        varsets[name] = [g3.g_variable_values(c, m, vars_, "valid"),
                         g3.g_variable_values(c, m, vars_, "valid"), {}]
    oracles = [[c.pick(1000), 0], [c.pick(1000), 0], [c.pick(1000), c.choose([12, 30, 60])]]
    runs = [[c.pick(4), c.pick(3), c.pick(3)] for _ in range(5)]
    return {"model": dict(m), "doc": doc, "varsets": varsets, "oracles": oracles, "runs": runs,
            "mutant": mutant, "schema_mode": c.choose(["prog", "prog-out-names", "sdl"]),
            "layout": [], "no_location": c.chance(60)}


def _scenarios(nex):
    def fn(ctx, shard, nshards):
        def body(sc):
            try:
                vs, n, status, nt = eval_scenario(sc)
            except Exception as e:  # noqa: BLE001  -- a mutant the harness cannot render/parse
                if sc.get("mutant"):
                    ctx.cls("mutant-unrenderable:" + type(e).__name__)
                    return
                raise
            ctx.count(n)
            ctx.cls("status:" + status)
            if sc.get("mutant"):
                ctx.cls(("accepted:" if status == "accepted-mutant" else "rejected:") + sc["mutant"])
            for x in nt:
                ctx.nontriv(x)
            if nt:
                ctx.sample(status + (":" + sc["mutant"] if sc.get("mutant") else ""), nt[0])
            ctx.check(vs)

        given_run(ctx, from_bytes(g_scenario, 3072), body, max_examples=nex)

    return fn


def subchecks(tier):
    if tier == "quick":
        return [Sub("scenarios", _scenarios(2500), shards=14)]
    return [Sub("scenarios", _scenarios(40000), shards=16)]


def replay(case):
    return eval_scenario(case)[0]
