"""C08 - print(parse(s)) parses to the same AST; printing is a fixed point.

Sub-checks
  docs          G1 trees x 3 layouts: parse(text) == expected AST (built programmatically from the
                tree), print -> parse -> same AST, reprint == first print; the programmatic tree
                itself prints to text that parses back to it; every embedded value/type on its own
                through parse_value / parse_const_value / parse_type; schema coordinates
  strings       bounded-exhaustive: all strings <= L over a 12-symbol alphabet as quoted value,
                block value (when in the image of BlockStringValue) in argument and description
                position, and as raw block-string source text
"""

from __future__ import annotations

import itertools

from vkit.core import Sub, Violation, given_run
from vkit.gen import g1
from vkit.gen.choice import from_bytes
from vkit.ref.lex import block_string_value
from vkit.ref.loc import PY_ONLY_TERMINATORS

ID = "C08"
RULE = (
    "docs: grammar-directed trees (vkit/gen/g1.py: executable, type-system, all extension kinds, "
    "schema coordinates, experimental fragment arguments and directives on directive definitions) "
    "decoded from Hypothesis byte strings, each rendered under 3 drawn layouts; strings: every "
    "string of length <= L (quick 4, thorough 5) over {LF,CR,space,TAB,\",\\,a,U+000B,U+000C,U+001E,"
    "U+0085,U+2028} in quoted/block/raw-block form. Non-trivial: the tree has a string value with a "
    "character outside [ -~] or a multi-line block string, or a rarely printed construct (extension, "
    "directive definition, experimental syntax, variable default, long line). Distinct by tree hash."
)
ASSUMPTIONS = [
    "programmatic block=True values are restricted to the image of the specification's BlockStringValue()",
    "string values are sequences of Unicode scalar values (the lexer rejects lone surrogates by specification)",
    "documents are parsed with the experimental flags their syntax needs (the only way such text can be read)",
]

ALPHA = ["\n", "\r", " ", "\t", '"', "\\", "a", "\x0b", "\x0c", "\x1e", "\x85", "\u2028"]


def _strings_in(tree):
    """All string nodes of a G1 tree (generic walk over dict/list)."""
    out = []
    stack = [tree]
    while stack:
        x = stack.pop()
        if isinstance(x, dict):
            if x.get("k") == "str":
                out.append(x)
            else:
                stack.extend(x.values())
        elif isinstance(x, list):
            stack.extend(x)
    return out


def _str_class(tree) -> str:
    vals = [(g1.raw_to_value(s["raw"]) if "raw" in s else s["v"]) for s in _strings_in(tree)]
    raws = [s.get("raw", "") for s in _strings_in(tree)]
    if any(c in v for v in vals + raws for c in PY_ONLY_TERMINATORS):
        return "py-only-terminator-in-string"
    if any(len(v) > 60 for v in vals):
        return "long-string"
    if any(ord(c) < 32 or ord(c) > 126 for v in vals for c in v):
        return "non-printable-ascii-string"
    return "plain"


def nontrivial_tree(tree) -> bool:
    strs = _strings_in(tree)
    for s in strs:
        v = g1.raw_to_value(s["raw"]) if "raw" in s else s["v"]
        if any(ord(c) < 32 or ord(c) > 126 for c in v) or ("raw" in s and "\n" in v):
            return True
    for d in tree.get("defs", []):
        if d.get("ext") or d["k"] == "directive" or tree.get("frag_args") or tree.get("dir_on_dir"):
            return True
        if d["k"] in ("op", "frag") and any(v.get("default") is not None for v in d.get("vars") or []):
            return True
    return False


def _flags(tree):
    return dict(experimental_fragment_arguments=bool(tree.get("frag_args")),
                experimental_directives_on_directive_definitions=bool(tree.get("dir_on_dir")))


def roundtrip(parse_fn, text, flags, case, what, cls):
    """parse -> print -> parse -> print laws on one text. Returns (violations, ast or None)."""
    from graphql.error import GraphQLSyntaxError
    from graphql.language import print_ast

    vs = []

    def bad(rel, detail):
        vs.append(Violation(("C08", rel, cls), f"[{what}] {detail}", case,
                            {"relation": rel, "class": cls, "what": what}))

    try:
        a1 = parse_fn(text, **flags)
    except GraphQLSyntaxError as e:
        bad("generated-text-rejected", f"{e.message} for {text!r}")
        return vs, None
    try:
        p1 = print_ast(a1)
    except Exception as e:  # noqa: BLE001
        bad("print-raises", f"print_ast raised {e!r} for {text!r}")
        return vs, a1
    try:
        a2 = parse_fn(p1, **flags)
    except Exception as e:  # noqa: BLE001
        bad("printed-text-rejected", f"{e!r} for printed {p1!r} (source {text!r})")
        return vs, a1
    s1, s2 = g1.sig(a1), g1.sig(a2)
    if s1 != s2:
        bad("reparse-differs", f"{g1.sig_diff(s1, s2)}; printed {p1!r}; source {text!r}")
    try:
        p2 = print_ast(a2)
        if p2 != p1:
            bad("print-not-fixed-point", f"{p2!r} != {p1!r}")
    except Exception as e:  # noqa: BLE001
        bad("print-raises", f"second print raised {e!r}")
    return vs, a1


def eval_doc(tree, layouts):
    from graphql.language import (parse, parse_const_value, parse_schema_coordinate, parse_type,
                                  parse_value, print_ast)

    vs = []
    cls = _str_class(tree)
    case = {"tree": tree, "layouts": layouts}
    flags = _flags(tree)
    toks = g1.to_tokens(tree)
    expected = g1.sig(g1.build(tree))
    n = 0
    for lay in layouts:
        text = g1.layout(toks, lay)
        v, a1 = roundtrip(parse, text, flags, case, "document", cls)
        vs += v
        n += 1
        if a1 is not None:
            s1 = g1.sig(a1)
            if s1 != expected:
                vs.append(Violation(("C08", "parse-differs-from-tree", cls),
                                    f"{g1.sig_diff(s1, expected)}; source {text!r}", case,
                                    {"relation": "parse-differs-from-tree", "class": cls}))
    # programmatic tree: print -> parse == tree
    try:
        t = g1.build(tree)
        p = print_ast(t)
        a = parse(p, **flags)
        n += 1
        if g1.sig(a) != expected:
            vs.append(Violation(("C08", "programmatic-roundtrip", cls),
                                f"{g1.sig_diff(g1.sig(a), expected)}; printed {p!r}", case,
                                {"relation": "programmatic-roundtrip", "class": cls}))
    except Exception as e:  # noqa: BLE001
        vs.append(Violation(("C08", "programmatic-roundtrip-raises", cls), f"{e!r}", case,
                            {"relation": "programmatic-roundtrip-raises", "class": cls}))
    # embedded values and types on their own
    lay = layouts[0] if layouts else []
    for kind, sub in _embedded(tree)[:6]:
        text = g1.layout(g1.to_tokens(sub), lay)
        fn = {"value": parse_value, "const": parse_const_value, "type": parse_type}[kind]
        v, a1 = roundtrip(fn, text, {}, case, kind, cls)
        vs += v
        n += 1
        if a1 is not None and g1.sig(a1) != g1.sig(g1.build(sub)):
            vs.append(Violation(("C08", "parse-differs-from-tree", cls),
                                f"[{kind}] {g1.sig_diff(g1.sig(a1), g1.sig(g1.build(sub)))}; {text!r}",
                                case, {"relation": "parse-differs-from-tree", "class": cls}))
    return vs, n


def _embedded(tree):
    """(kind, subtree) for values (const / non-const) and types inside a tree."""
    out = []

    def has_var(v):
        if isinstance(v, dict):
            return v.get("k") == "var" or any(has_var(x) for x in v.values())
        if isinstance(v, list):
            return any(has_var(x) for x in v)
        return False

    def walk(x):
        if isinstance(x, dict):
            k = x.get("k")
            if k in ("int", "float", "str", "bool", "null", "enum", "var", "list", "obj"):
                out.append(("value" if has_var(x) else ("const" if len(out) % 2 else "value"), x))
                return
            if k in ("named", "listT", "nonnull"):
                out.append(("type", x))
                return
            for v in x.values():
                walk(v)
        elif isinstance(x, list):
            for v in x:
                walk(v)

    walk(tree)
    return out


def eval_coordinate(tree):
    from graphql.language import parse_schema_coordinate

    text = g1.layout(g1.to_tokens(tree), [], coordinate=True)
    case = {"tree": tree, "layouts": []}
    vs, a1 = roundtrip(lambda s: parse_schema_coordinate(s), text, {}, case, "coordinate", "plain")
    if a1 is not None and g1.sig(a1) != g1.sig(g1.build(tree)):
        vs.append(Violation(("C08", "parse-differs-from-tree", "plain"),
                            f"[coordinate] {text!r}", case, {"relation": "parse-differs-from-tree"}))
    return vs


# ------------------------------------------------------------------------------------------


def in_block_image(s: str) -> bool:
    return block_string_value(s) == s or block_string_value("\n" + s) == s


def eval_string(s: str):
    """Exhaustive string sub-check on one value."""
    from graphql.error import GraphQLSyntaxError
    from graphql.language import ast as A
    from graphql.language import parse, print_ast

    vs = []
    n = 0
    cls = ("py-only-terminator-in-string" if any(c in s for c in PY_ONLY_TERMINATORS) else "plain")
    case = {"string": s}

    def bad(rel, detail):
        vs.append(Violation(("C08", rel, cls), detail, case, {"relation": rel, "class": cls}))

    def doc_arg(node):
        return A.DocumentNode(definitions=(A.OperationDefinitionNode(
            operation=A.OperationType.QUERY, selection_set=A.SelectionSetNode(selections=(
                A.FieldNode(name=A.NameNode(value="f"), arguments=(
                    A.ArgumentNode(name=A.NameNode(value="a"), value=node),)),))),))

    def doc_desc(node):
        return A.DocumentNode(definitions=(A.ScalarTypeDefinitionNode(
            description=node, name=A.NameNode(value="S")),))

    def get_arg(doc):
        return doc.definitions[0].selection_set.selections[0].arguments[0].value

    def get_desc(doc):
        return doc.definitions[0].description

    forms = [(False, "quoted")] + ([(True, "block")] if in_block_image(s) else [])
    for block, form in forms:
        for mk, get, pos in ((doc_arg, get_arg, "argument"), (doc_desc, get_desc, "description")):
            n += 1
            try:
                p = print_ast(mk(A.StringValueNode(value=s, block=block)))
                a = parse(p)
                got = get(a)
                if got.value != s or bool(got.block) != block:
                    bad(f"string-{form}-{pos}", f"value {s!r} came back as {got.value!r} "
                        f"(block={got.block}) via {p!r}")
                elif print_ast(a) != p:
                    bad("print-not-fixed-point", f"{print_ast(a)!r} != {p!r}")
            except Exception as e:  # noqa: BLE001
                bad(f"string-{form}-{pos}-raises", f"{e!r} for value {s!r}")
    # raw block string source text
    text = '{f(a:"""' + s + '""")}'
    try:
        a1 = parse(text)
    except GraphQLSyntaxError:
        return vs, n, False
    n += 1
    try:
        v1 = get_arg(a1)
        p1 = print_ast(a1)
        a2 = parse(p1)
        v2 = get_arg(a2)
        if not isinstance(v1, A.StringValueNode) or not isinstance(v2, A.StringValueNode):
            return vs, n, True
        if v1.value != v2.value or v1.block != v2.block:
            bad("raw-block-roundtrip", f"raw {s!r}: value {v1.value!r} reprinted as {p1!r} "
                f"parses to {v2.value!r}")
        elif print_ast(a2) != p1:
            bad("print-not-fixed-point", f"{print_ast(a2)!r} != {p1!r}")
    except Exception as e:  # noqa: BLE001
        bad("raw-block-roundtrip-raises", f"{e!r} for raw {s!r}")
    return vs, n, True


def _strings(L):
    def fn(ctx, shard, nshards):
        prefixes = list(itertools.product(ALPHA, repeat=2))

        def one(s):
            vs, n, _ok = eval_string(s)
            ctx.count(n)
            ctx.nontriv("s:" + s, "string" if len(s) == 3 and "\n" in s else None)
            if vs:
                ctx.report(vs)

        if shard == 0:
            for n in (0, 1):
                for t in itertools.product(ALPHA, repeat=n):
                    one("".join(t))
        for p in prefixes[shard::nshards]:
            for n in range(0, L - 1):
                for t in itertools.product(ALPHA, repeat=n):
                    one("".join(p + t))
        ctx.notes["max_len"] = L

    return fn


def _docs(n):
    def fn(ctx, shard, nshards):
        def dec(c):
            if c.chance(12):
                return {"coord": g1.g_coordinate(c)}
            tree = g1.g_document(c)
            return {"tree": tree, "layouts": [c.ints(12), c.ints(20), c.ints(5)]}

        def body(case):
            if "coord" in case:
                vs = eval_coordinate(case["coord"])
                ctx.count()
                ctx.cls("coordinate")
                ctx.nontriv(case, "coordinate")
                ctx.check(vs)
                return
            tree = case["tree"]
            vs, k = eval_doc(tree, case["layouts"])
            ctx.count(k)
            for d in tree["defs"]:
                ctx.cls(d["k"] + ("-ext" if d.get("ext") else ""))
            cls = _str_class(tree)
            ctx.cls("strings:" + cls)
            if nontrivial_tree(tree):
                ctx.nontriv(tree)
                ctx.sample(cls, case)
            ctx.check(vs)

        given_run(ctx, from_bytes(dec, 512), body, max_examples=n)

    return fn


def subchecks(tier):
    if tier == "quick":
        return [Sub("docs", _docs(9000), shards=10, weight=2),
                Sub("strings", _strings(4), shards=6, weight=1, exhaustive=True)]
    return [Sub("docs", _docs(120000), shards=16, weight=2),
            Sub("strings", _strings(5), shards=16, weight=1, exhaustive=True)]


def replay(case):
    if "string" in case:
        return eval_string(case["string"])[0]
    if "coord" in case:
        return eval_coordinate(case["coord"])
    return eval_doc(case["tree"], case["layouts"])[0]
