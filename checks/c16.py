"""C16 - leaf results are serialised within the specification's value domains.

Sub-checks
  scalars_pool   bounded-exhaustive: adversarial value pool x 5 built-in scalars, directly
                 (coerce_output_value) and through execute_sync on a one-field schema
  scalars_gen    Hypothesis integers / floats / text / numeric-looking strings x 5 scalars
  enums          generated enum types (internal values of many Python types, duplicates, True next
                 to 1, unhashable values, Python Enum in the three names_as_values modes) x output
                 values drawn from internal values, equal-but-not-identical values and near misses
Oracle: outcome is an Exception (=> located field error through the executor) or a value in the
type's domain that equals a numeric input exactly, is JSON-representable and is accepted back by
the same type's input coercion with the same meaning.
"""

from __future__ import annotations

import enum
import json
import math
from decimal import Decimal
from fractions import Fraction

from vkit.core import Sub, Violation, given_run
from vkit.gen.choice import from_bytes

ID = "C16"
RULE = (
    "scalars_pool: every value of a ~150-entry adversarial pool (bool/int incl. >2^53 and >2^1024, "
    "float incl. -0.0/nan/inf/subnormal, numeric-looking/empty/whitespace/non-ASCII-digit strings, "
    "bytes, containers, custom objects with __str__/__int__/__float__/__index__, int/float/str "
    "subclasses, Decimal/Fraction/complex, Enum members) x each built-in scalar, direct and via the "
    "executor; scalars_gen: Hypothesis integers, floats, text; enums: generated enum definitions x "
    "output values. Non-trivial: the input is not already of the exact target Python type. Distinct by "
    "(type, repr(value), type(value))."
)
ASSUMPTIONS = [
    "which strings Int/Float accept is not asserted (the specification says 'may'); only the value domain and the round-trip law are",
    "an enum value without internal value serialises under its name (documented); the first of several equal internal values wins (documented)",
]

I32_MIN, I32_MAX = -(2**31), 2**31 - 1


class _S:
    def __init__(self, s):
        self.s = s

    def __str__(self):
        return self.s

    def __repr__(self):
        return f"_S({self.s!r})"


class _Num:
    def __init__(self, v):
        self.v = v

    def __int__(self):
        return int(self.v)

    def __float__(self):
        return float(self.v)

    def __index__(self):
        return int(self.v)

    def __repr__(self):
        return f"_Num({self.v!r})"


class _Unhashable:
    __hash__ = None

    def __eq__(self, other):
        return isinstance(other, _Unhashable)

    def __repr__(self):
        return "_Unhashable()"


class _MyInt(int):
    pass


class _MyFloat(float):
    pass


class _MyStr(str):
    pass


class _Color(enum.Enum):
    RED = 1
    GREEN = "g"


class _IntE(enum.IntEnum):
    ONE = 1
    BIG = 2**40


def pool():
    return [
        True, False, 0, 1, -1, 7, I32_MAX, I32_MAX + 1, I32_MIN, I32_MIN - 1, 2**53, 2**53 + 1,
        -(2**53 + 1), -(2**53) - 2, 2**63, 2**64 - 1, -(2**64 - 1), 10**23, -(10**23), 10**400,
        -(10**400), 2**1024, 2**1023, -(2**1024), 9007199254740993, 0.0, -0.0, 1.0, 1.5, -2.5, 1e10,
        2147483647.0, 2147483648.0, -2147483648.0, -2147483649.0, 2147483647.5, 1e-320, 5e-324,
        float("nan"), float("inf"), float("-inf"), 1e308, 1.7976931348623157e308, 0.1 + 0.2,
        2.0**53, 2.0**53 + 2, 1e15, 1e16, 1e21, 1e22, 123456789.0, -1e-7, 3.0000000000000004,
        "", " ", "0", "1", "-1", "+1", "1.0", "1.5", "1e3", "5.0", "2E9", "-0.0", " 1", "1 ", "\t1\n",
        "\u0661", "\uff11", "0x10", "0b1", "1_0", "1_000", "2147483647", "2147483648", "-2147483649",
        "9007199254740993", "1e400", "-1e400", "nan", "NaN", "inf", "-inf", "Infinity", "true", "false",
        "True", "abc", "\u00e9", "\ud800", "1,5", "1.", ".5", "1e", "--1", "0" * 400 + "1", "1" * 400,
        "1e-400", "0.1e1", b"1", b"", bytearray(b"1"), None, [], [1], (1,), {}, {"a": 1}, {1},
        frozenset([1]), range(2), object(), _S("1"), _S("abc"), _S(""), _Num(1), _Num(1.5),
        _Num(2**40), _Unhashable(), _MyInt(5), _MyInt(2**40), _MyFloat(1.5), _MyFloat("nan"),
        _MyStr("7"), _MyStr("x"), Decimal("1"), Decimal("1.5"), Decimal("NaN"), Fraction(1, 2),
        Fraction(4, 2), 1 + 0j, 1j, _Color.RED, _IntE.ONE, _IntE.BIG, len, int, Ellipsis,
        NotImplemented, memoryview(b"1"),
    ]


def scalars():
    from graphql import GraphQLBoolean, GraphQLFloat, GraphQLID, GraphQLInt, GraphQLString

    return {"Int": GraphQLInt, "Float": GraphQLFloat, "String": GraphQLString,
            "Boolean": GraphQLBoolean, "ID": GraphQLID}


def _is_num(v):
    return isinstance(v, (int, float))


def _exact_type(name, v):
    return {"Int": type(v) is int, "Float": type(v) is float, "String": type(v) is str,
            "ID": type(v) is str, "Boolean": type(v) is bool}[name]


def check_scalar_output(name, t, v, o):
    """Problems with output o for input v of built-in scalar `name` (empty list when fine)."""
    probs = []
    if name == "Int":
        if type(o) is not int:
            probs.append(f"Int emitted {o!r} of type {type(o).__name__}")
        elif not I32_MIN <= o <= I32_MAX:
            probs.append(f"Int emitted out-of-range {o!r}")
        if _is_num(v) and not probs and not (o == v):
            probs.append(f"Int emitted {o!r} for numeric input {v!r}")
    elif name == "Float":
        if isinstance(o, bool) or not isinstance(o, (int, float)):
            probs.append(f"Float emitted {o!r} of type {type(o).__name__}")
        elif not math.isfinite(o):
            probs.append(f"Float emitted non-finite {o!r}")
        elif _is_num(v) and not (o == v):
            probs.append(f"Float emitted {o!r} for numeric input {v!r} (precision lost)")
    elif name in ("String", "ID"):
        if not isinstance(o, str):
            probs.append(f"{name} emitted {o!r} of type {type(o).__name__}")
    elif name == "Boolean":
        if type(o) is not bool:
            probs.append(f"Boolean emitted {o!r} of type {type(o).__name__}")
    if probs:
        return probs
    try:
        json.dumps(o, allow_nan=False)
    except Exception as e:  # noqa: BLE001
        probs.append(f"{name} emitted {o!r} which is not JSON-representable: {e}")
        return probs
    try:
        back = t.coerce_input_value(o)
        if not (back == o) or (name in ("String", "ID", "Boolean") and type(back) is not type(o)):
            probs.append(f"{name} emitted {o!r} but input coercion maps it to {back!r}")
    except Exception as e:  # noqa: BLE001
        probs.append(f"{name} emitted {o!r} which its own input coercion rejects: {e}")
    return probs


_exec_schemas = {}


def via_executor(name, t, v):
    """(kind, value) with kind in {'value','error','crash'} through execute_sync."""
    from graphql import GraphQLField, GraphQLObjectType, GraphQLSchema, execute_sync, parse

    key = name
    if key not in _exec_schemas:
        holder = {}
        schema = GraphQLSchema(GraphQLObjectType("Query", {
            "f": GraphQLField(t, resolve=lambda *_: holder["v"])}))
        _exec_schemas[key] = (schema, holder, parse("{ f }"))
    schema, holder, doc = _exec_schemas[key]
    holder["v"] = v
    try:
        r = execute_sync(schema, doc)
    except Exception as e:  # noqa: BLE001
        return "crash", e
    if r.errors:
        ok = (r.data == {"f": None} and len(r.errors) == 1 and r.errors[0].path == ["f"])
        return ("error" if ok else "crash"), r
    return "value", r.data["f"]


def eval_scalar(name, v, with_executor=True):
    t = scalars()[name]
    case = {"type": name, "value": repr(v), "value_type": type(v).__name__}
    vs = []

    def bad(rel, detail):
        vs.append(Violation(("C16", rel, name), detail, case, {"relation": rel, "type": name}))

    try:
        o = t.coerce_output_value(v)
        raised = None
    except Exception as e:  # noqa: BLE001
        o, raised = None, e
    except BaseException as e:  # noqa: BLE001
        bad("base-exception", f"{name}.coerce_output_value({v!r}) raised {type(e).__name__}")
        return vs
    if raised is None:
        for p in check_scalar_output(name, t, v, o):
            bad("domain", p)
    if with_executor and v is not None and not isinstance(v, Exception):
        kind, res = via_executor(name, t, v)
        if kind == "crash":
            bad("executor", f"execute_sync with {v!r} for {name}: {res!r}")
        elif kind == "value":
            if raised is not None:
                # lists/awaitables etc. take other executor paths; only flag leaf-domain problems
                for p in check_scalar_output(name, t, v, res):
                    bad("domain-via-executor", p)
            elif not (res == o and type(res) is type(o)):
                bad("executor-differs", f"direct {o!r} vs executed {res!r} for {v!r}")
    return vs


def _scalars_pool():
    def fn(ctx, shard, nshards):
        items = [(n, v) for n in scalars() for v in pool()]
        for n, v in items[shard::nshards]:
            try:
                vs = eval_scalar(n, v)
            except Exception as e:  # noqa: BLE001  -- e.g. repr of a hostile object
                vs = [Violation(("C16", "harness", n), repr(e), {"type": n})]
            ctx.count(2)
            ctx.cls("type:" + n)
            if not _exact_type(n, v):
                ctx.nontriv(f"{n}:{type(v).__name__}:{v!r}", n)
            if vs:
                ctx.report(vs)
        ctx.notes["pool_size"] = len(pool())

    return fn


def _scalars_gen(nex):
    def fn(ctx, shard, nshards):
        from hypothesis import strategies as st

        numeric_text = st.builds(
            lambda sign, a, frac, exp, pad: f"{pad}{sign}{a}{frac}{exp}{pad}",
            st.sampled_from(["", "-", "+"]), st.integers(0, 10**20).map(str),
            st.sampled_from(["", ".0", ".5", ".000", "."]),
            st.sampled_from(["", "e0", "e3", "E-2", "e400", "e"]), st.sampled_from(["", " ", "\n"]))
        value = st.one_of(st.integers(), st.integers(-2**33, 2**33), st.floats(),
                          st.floats(-2**32, 2**32), st.text(max_size=6), numeric_text,
                          st.integers(2**52, 2**55), st.integers(-2**55, -2**52),
                          st.integers(2**52, 2**55).map(float))
        strat = st.lists(value, min_size=20, max_size=20)

        def body(batch):
            allvs = []
            for v in batch:
                for n in scalars():
                    allvs += eval_scalar(n, v, with_executor=False)
                    ctx.count()
                    if not _exact_type(n, v):
                        ctx.nontriv(f"{n}:{type(v).__name__}:{v!r}")
            ctx.sample("gen-batch", [repr(x) for x in batch[:5]])
            ctx.check(allvs)

        given_run(ctx, strat, body, max_examples=nex)

    return fn


# ------------------------------------------------------------------------------------------
# enums

NAMES = ["A", "B", "C", "D", "E"]


def g_enum_case(c):
    kind = c.pick(6)
    if kind == 0:
        mode = c.choose([False, True, None])
        return {"kind": "pyenum", "mode": mode, "probe": c.pick(12)}
    n = c.count(1, 5)
    ivals = []
    for _ in range(n):
        ivals.append(c.choose(["int0", "int1", "int2", "true", "false", "one-float", "str-A", "str-B",
                               "str-x", "none", "none", "tuple", "list", "dict", "nan", "big",
                               "unhashable", "str-1", "zero-float", "empty-str"]))
    return {"kind": "dict", "values": ivals, "probe": c.pick(24)}


def _ival(tag):
    return {"int0": 0, "int1": 1, "int2": 2, "true": True, "false": False, "one-float": 1.0,
            "str-A": "A", "str-B": "B", "str-x": "x", "none": None, "tuple": (1, 2), "list": [1, 2],
            "dict": {"k": 1}, "nan": float("nan"), "big": 2**70, "unhashable": _Unhashable(),
            "str-1": "1", "zero-float": 0.0, "empty-str": ""}[tag]


def eval_enum(case):
    from graphql import GraphQLEnumType
    from graphql.pyutils import Undefined

    vs = []

    def bad(rel, detail):
        vs.append(Violation(("C16", rel, "enum"), detail, case, {"relation": rel}))

    if case["kind"] == "pyenum":
        et = GraphQLEnumType("E", _Color, names_as_values=case["mode"])
        internal = {"RED": _Color.RED if case["mode"] is None else ("RED" if case["mode"] else 1),
                    "GREEN": _Color.GREEN if case["mode"] is None else ("GREEN" if case["mode"] else "g")}
    else:
        internal = {NAMES[i]: _ival(tag) for i, tag in enumerate(case["values"])}
        et = GraphQLEnumType("E", dict(internal))
    probes = list(internal.values()) + list(internal) + [
        1, 1.0, True, 0, False, "A", "g", "RED", _Color.RED, _Color.GREEN, (1, 2), [1, 2], {"k": 1},
        None, 2, "1", "", _Unhashable(), 2**70, float("nan"), "Z", 3.5, b"A", Undefined]
    n = 0
    for v in probes:
        n += 1
        try:
            name = et.coerce_output_value(v)
        except Exception:  # noqa: BLE001
            continue
        if not isinstance(name, str) or name not in internal:
            bad("enum-undeclared-name", f"{v!r} serialised to {name!r}, declared names {list(internal)}")
            continue
        iv = internal[name]
        same = iv is v or _safe_eq(iv, v) or (iv is None and v == name)
        if not same:
            bad("enum-wrong-value", f"{v!r} serialised to {name!r} whose internal value is {iv!r}")
            continue
        try:
            back = et.coerce_input_value(name)
        except Exception as e:  # noqa: BLE001
            bad("enum-roundtrip", f"{name!r} emitted for {v!r} is rejected as input: {e}")
            continue
        if not (back is iv or _safe_eq(back, iv)):
            bad("enum-roundtrip", f"{name!r} parses to {back!r}, internal value is {iv!r}")
        try:
            json.dumps(name, allow_nan=False)
        except Exception as e:  # noqa: BLE001
            bad("enum-json", f"{name!r}: {e}")
    return vs, n


def _safe_eq(a, b):
    try:
        return bool(a == b)
    except Exception:  # noqa: BLE001
        return False


def _enums(nex):
    def fn(ctx, shard, nshards):
        def body(case):
            vs, n = eval_enum(case)
            ctx.count(n)
            ctx.cls("enum:" + case["kind"])
            ctx.nontriv(case, case["kind"])
            ctx.check(vs)

        given_run(ctx, from_bytes(g_enum_case, 32), body, max_examples=nex)

    return fn


def subchecks(tier):
    if tier == "quick":
        return [Sub("scalars_pool", _scalars_pool(), shards=2, weight=1, exhaustive=True),
                Sub("scalars_gen", _scalars_gen(400), shards=8, weight=2),
                Sub("enums", _enums(3000), shards=4, weight=1)]
    return [Sub("scalars_pool", _scalars_pool(), shards=4, weight=1, exhaustive=True),
            Sub("scalars_gen", _scalars_gen(6000), shards=16, weight=2),
            Sub("enums", _enums(40000), shards=8, weight=1)]


def replay(case):
    if "kind" in case:
        return eval_enum(case)[0]
    # scalar cases store repr(value); replay looks the value up in the pool by repr and type
    for v in pool():
        if repr(v) == case["value"] and type(v).__name__ == case["value_type"]:
            return eval_scalar(case["type"], v)
    import ast

    try:
        v = ast.literal_eval(case["value"])
    except Exception:  # noqa: BLE001
        try:
            v = float(case["value"])
        except Exception:  # noqa: BLE001
            return []
    return eval_scalar(case["type"], v)
