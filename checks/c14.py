"""C14 - field-merge validation accepts exactly what the specification accepts.

Oracle: R6 (vkit/ref/merge.py), a literal, memo-free transcription of FieldsInSetCanMerge /
SameResponseShape applied to every selection set with fragments expanded.
validate(schema, doc, [OverlappingFieldsCanBeMergedRule]) != []  <=>  R6 finds a non-mergeable pair.
Documents are parsed with and without locations (the rule caches by node); cyclic fragment graphs are
checked for termination only.
"""

from __future__ import annotations

import copy

from vkit.core import Sub, Violation, given_run
from vkit.gen import g1, g2, g3
from vkit.gen.choice import from_bytes
from vkit.ref import merge as R6

ID = "C14"
RULE = (
    "schemas from G2 (objects, interfaces, unions, same-named fields with differing wrappers and leaf types) "
    "and documents from the type-directed generator in conflict-seeking mode: response keys drawn from a "
    "3-name pool without legality check, fragments reused freely (so one fragment is reached under exclusive "
    "and non-exclusive parents in both orders), arguments incl. variables and input objects, plus argument "
    "key permutations; a stratum with fragment cycles. Non-trivial: >= 1 response name carried by >= 2 field "
    "nodes reached through >= 1 fragment spread. Distinct by document hash."
)
ASSUMPTIONS = [
    "documents with fields unknown to their parent type are excluded from the verdict comparison (the base algorithm does not define them)",
    "no @stream and no fragment arguments are generated",
]


def _permute_object_args(tree, c_ints):
    """Same document with the keys of input object literals reversed (argument order unchanged)."""
    t = copy.deepcopy(tree)

    def walk(x):
        if isinstance(x, dict):
            if x.get("k") == "obj":
                x["fs"] = list(reversed(x["fs"]))
            for v in x.values():
                walk(v)
        elif isinstance(x, list):
            for v in x:
                walk(v)

    walk(t)
    return t


def _collision_stats(tree):
    """(# response names carried by >= 2 field nodes anywhere, # fragment spreads)."""
    names = {}
    spreads = 0

    def walk(sel, path):
        nonlocal spreads
        for s in sel:
            if s["k"] == "field":
                key = s["alias"] or s["n"]
                names[key] = names.get(key, 0) + 1
                if s["sel"]:
                    walk(s["sel"], path + (key,))
            elif s["k"] == "inline":
                walk(s["sel"], path)
            else:
                spreads += 1

    for d in tree["defs"]:
        walk(d["sel"], ())
    return sum(1 for v in names.values() if v >= 2), spreads


def eval_doc(m, tree, no_location, cyclic=False):
    from graphql import parse, validate
    from graphql.validation import OverlappingFieldsCanBeMergedRule

    m = g2.as_model(m)
    case = {"model": dict(m), "tree": tree, "no_location": no_location, "cyclic": cyclic}
    vs = []

    def bad(rel, detail):
        vs.append(Violation(("C14", rel, "no-location" if no_location else "with-location"), detail, case,
                            {"relation": rel, "no_location": no_location}))

    text = g1.layout(g1.to_tokens(tree), [], minimal=True)
    schema = _schema(m)
    try:
        doc = parse(text, no_location=no_location)
        errs = validate(schema, doc, [OverlappingFieldsCanBeMergedRule])
    except RecursionError:
        bad("rule-recursion", f"RecursionError for {text!r}")
        return vs, False
    except Exception as e:  # noqa: BLE001
        bad("rule-raises", f"{type(e).__name__}: {e} for {text!r}")
        return vs, False
    if cyclic:
        return vs, True
    try:
        want, unknown = R6.conflicts(m, tree)
    except TimeoutError:
        return vs, False
    if unknown:
        return vs, False
    global _LAST_VERDICT
    _LAST_VERDICT = want
    if bool(errs) != want:
        bad("verdict", f"rule reports {[e.message[:120] for e in errs[:2]]} but the specification's "
            f"algorithm says {'conflict' if want else 'mergeable'}: {text!r}")
    return vs, True


_schemas = {}
_LAST_VERDICT = None


def _schema(m):
    key = id(m)
    s = _schemas.get(key)
    if s is None or s[0] is not m:
        if len(_schemas) > 8:
            _schemas.clear()
        _schemas[key] = (m, g2.build(m))
    return _schemas[key][1]


def g_exclusive_tree(c, m, cyclic=False):
    """One response key selected under two exclusive object types and their common interface, the
    sub-selections sharing a fragment: the structure where the rule's pair memo must keep the
    'mutually exclusive' flag apart.  Returns a tree or None when the model has no such shape."""
    m = g2.as_model(m)
    cands = []
    for i in m["interfaces"]:
        impl = [o["name"] for o in m["objects"] if i["name"] in o["interfaces"]]
        comp = [f for f in i["fields"] if m.kind(g2.named(f["type"])) in ("object", "interface", "union")
                and not any(g2.is_nn(a["type"]) and a["default"] is None for a in f["args"])]
        if len(impl) >= 2 and comp:
            cands.append((i, impl, comp))
    if not cands:
        return None
    i, impl, comp = c.choose(cands)
    f = c.choose(comp)
    t = g2.named(f["type"])
    gen = g3.DocGen(c, m, collide=220)
    s1 = gen.g_selset(t, ("K",), 1)
    s2 = gen.g_selset(t, ("K",), 1)
    frag_on = c.choose(gen.overlapping_types(t))
    s2 = gen.g_selset(frag_on, ("K",), 1)
    y = {"k": "frag", "desc": None, "n": "Y", "vars": [], "on": frag_on, "dirs": [], "sel": s2}
    spread = {"k": "spread", "n": "Y", "args": None, "dirs": []}

    def fld(sel):
        return {"k": "field", "alias": "K", "n": f["name"], "args": [], "dirs": [], "sel": sel}

    a, b = impl[0], impl[1]
    extra = []
    if cyclic:
        # a second fragment Z and a spread cycle through Y: the pair (Y, Z) is compared under exclusive parents
        # and then again under overlapping ones while one of the two sits on a cycle
        z = {"k": "frag", "desc": None, "n": "Z", "vars": [], "on": frag_on, "dirs": [],
             "sel": s1 if frag_on == t else gen.g_selset(frag_on, ("K",), 1)}
        extra.append(z)
        kind = c.pick(3)
        if kind == 0:
            y["sel"].append(dict(spread))
        elif kind == 1:
            y["sel"].append({"k": "spread", "n": "Z", "args": None, "dirs": []})
            z["sel"].append(dict(spread))
        else:
            z["sel"].append({"k": "spread", "n": "Z", "args": None, "dirs": []})
        s1 = [{"k": "spread", "n": "Z", "args": None, "dirs": []}]
    parts = [{"k": "inline", "on": a, "dirs": [], "sel": [fld(s1)]},
             {"k": "inline", "on": b, "dirs": [], "sel": [fld([spread])]},
             {"k": "inline", "on": c.choose([i["name"], a, None]), "dirs": [], "sel": [fld([dict(spread)])]}]
    if cyclic:
        parts.append({"k": "inline", "on": c.choose([i["name"], b, None]), "dirs": [],
                      "sel": [fld([dict(spread), {"k": "spread", "n": "Z", "args": None, "dirs": []}])]})
    parts = [parts[k] for k in g2._perm(len(parts), c.ints(len(parts)))]
    top = {"k": "frag", "desc": None, "n": "Top", "vars": [], "on": i["name"], "dirs": [], "sel": parts}
    op = {"k": "op", "short": True, "sel": [{"k": "field", "alias": None, "n": "__typename", "args": [],
                                             "dirs": [], "sel": None}]}
    vars_used = gen.vars
    if vars_used:
        op = {"k": "op", "short": False, "desc": None, "op": "query", "n": "Q", "vars": gen.vardefs(),
              "dirs": [], "sel": op["sel"]}
    return {"k": "doc", "defs": [op, top, y] + extra + gen.frags, "frag_args": False, "dir_on_dir": False}


def g_case(c):
    m = g2.g_model(c)
    if c.chance(70):
        cyc = c.chance(90)
        t = g_exclusive_tree(c, m, cyc)
        if t is not None:
            return {"model": dict(m), "tree": t, "cyclic": cyc, "permute": False,
                    "stratum": "exclusive-cyclic" if cyc else "exclusive"}
    doc = g3.g_document(c, m, depth=3, operation="query", collide=c.choose([60, 120, 200]), n_ops=1)
    tree = doc["tree"]
    cyclic = False
    if c.chance(25):
        frs = [d for d in tree["defs"] if d["k"] == "frag"]
        if frs:
            a = c.choose(frs)
            b = c.choose(frs)
            a["sel"].append({"k": "spread", "n": b["n"], "args": None, "dirs": []})
            b["sel"].append({"k": "spread", "n": a["n"], "args": None, "dirs": []})
            cyclic = True
    return {"model": dict(m), "tree": tree, "cyclic": cyclic, "permute": c.chance(60)}


def _docs(nex):
    def fn(ctx, shard, nshards):
        def body(case):
            m = g2.as_model(case["model"])
            trees = [case["tree"]]
            if case["permute"]:
                trees.append(_permute_object_args(case["tree"], []))
            allvs = []
            for t in trees:
                for nl in (False, True):
                    vs, compared = eval_doc(m, t, nl, case["cyclic"])
                    allvs += vs
                    ctx.count()
                    ctx.cls("compared" if compared else "skipped")
                    if compared and not case["cyclic"]:
                        ctx.cls("verdict:conflict" if _LAST_VERDICT else "verdict:mergeable")
            dups, spreads = _collision_stats(case["tree"])
            ctx.cls("cyclic" if case["cyclic"] else "acyclic")
            if case.get("stratum"):
                ctx.cls("stratum:" + case["stratum"])
            if dups >= 1 and spreads >= 1:
                ctx.nontriv(case["tree"], "collision-through-fragment")
            ctx.check(allvs)

        given_run(ctx, from_bytes(g_case, 3072), body, max_examples=nex)

    return fn


def subchecks(tier):
    if tier == "quick":
        return [Sub("docs", _docs(2500), shards=14)]
    return [Sub("docs", _docs(40000), shards=16)]


def replay(case):
    return eval_doc(case["model"], case["tree"], case["no_location"], case.get("cyclic", False))[0]
