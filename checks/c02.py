"""C02 - execution computes exactly what the specification's algorithm computes.

Oracle: R5 (vkit/ref/execute.py): CoerceVariableValues, CollectFields, ExecuteSelectionSet,
CoerceArgumentValues, CompleteValue and error propagation written from the specification, run on the
generated document tree, the schema model and a deterministic data oracle shared with the harness
resolvers.  Compared: data including key order at every level, the multiset of error paths, the
argument values every resolver received (in call order), request errors for bad variables; the same
request repeated after other requests on the same schema/document objects gives the same response.
"""

from __future__ import annotations

import json

from vkit.core import Sub, Violation, given_run
from vkit.gen import g1, g2, g3
from vkit.gen.choice import from_bytes
from vkit.harness.resolvers import make_field_resolver
from vkit.ref import execute as R5

ID = "C02"
RULE = (
    "scenario = (schema model G2 built programmatically, with out_name on arguments in half of the cases, "
    "or from SDL; type-directed document G3 with aliases, fragments, inline fragments, skip/include, "
    "variables with defaults, defaulted arguments, abstract fields, lists, non-null, mutations; 3 variable "
    "maps incl. rejected ones; 2 data oracles with natural nulls and planted faults: null, raising "
    "resolver, wrong kind, non-member runtime type); each request is executed twice with other requests in "
    "between. Non-trivial: the document uses >= 2 of {alias, named fragment, typed inline fragment, "
    "skip/include, abstract field, list, non-null, variable, defaulted argument} and the response has >= 3 "
    "leaves or >= 1 error. Distinct by hash of (document, variables, oracle seed)."
)
ASSUMPTIONS = [
    "leaf values are restricted to classes whose result coercion the specification fixes (ints for Int, "
    "floats for Float, str for String/ID, bool for Boolean, declared names for enums)",
    "resolvers are pure and never mutate their arguments; error messages and error order are not compared",
    "documents the generator produces but validate() rejects are skipped and counted (safety net)",
    "requests with an unbound variable inside a custom scalar literal are not compared (the scalar defines it)",
    "@skip/@include never receive a null `if` (the specification does not define CollectFields for it)",
]


def ordered_eq(a, b, path=""):
    """Order-sensitive deep equality; returns None or a description of the first difference."""
    if isinstance(a, dict) and isinstance(b, dict):
        if list(a.keys()) != list(b.keys()):
            return f"{path}: keys {list(a.keys())} != {list(b.keys())}"
        for k in a:
            d = ordered_eq(a[k], b[k], f"{path}/{k}")
            if d:
                return d
        return None
    if isinstance(a, list) and isinstance(b, list):
        if len(a) != len(b):
            return f"{path}: list length {len(a)} != {len(b)}"
        for i, (x, y) in enumerate(zip(a, b)):
            d = ordered_eq(x, y, f"{path}/{i}")
            if d:
                return d
        return None
    if isinstance(a, bool) != isinstance(b, bool) or a != b:
        return f"{path}: {a!r} != {b!r}"
    return None


def count_leaves(d):
    if isinstance(d, dict):
        return sum(count_leaves(v) for v in d.values())
    if isinstance(d, list):
        return sum(count_leaves(v) for v in d)
    return 1


class Env:
    def __init__(self, sc):
        from graphql import build_schema, parse, validate

        self.m = g2.as_model(sc["model"])
        self.out_names = sc["schema_mode"] == "prog-out-names"
        self.typing = sc.get("typing", "resolver")
        self.default_typing = lambda name, value, info: (
            (value.get("__tn") or value.get("__typename")) if isinstance(value, dict) else None) == name
        self.typing_hook = {"fn": self.default_typing}
        if sc.get("incremental"):
            self.schema = g2.build(self.m, use_out_names=self.out_names, incremental=True)
        elif sc.get("typing") == "is_type_of":
            self.schema = g2.build(self.m, use_out_names=self.out_names, is_type_of=lambda name: (
                lambda value, info: self.typing_hook["fn"](name, value, info)))
        elif sc["schema_mode"] == "sdl":
            self.schema = build_schema(g2.to_sdl(self.m))
        else:
            self.schema = g2.build(self.m, use_out_names=self.out_names)
        self.tree = sc["doc"]["tree"]
        text = g1.layout(g1.to_tokens(self.tree), sc.get("layout", []))
        self.text = text
        self.doc = parse(text, no_location=bool(sc.get("no_location")))
        self.schema_rejected = None
        try:
            self.valid = not validate(self.schema, self.doc)
        except TypeError as e:
            # assert_valid_schema: the library rejects a schema that is valid by construction (the generator's
            # claim is cross-checked by C20 against the reference rules R7 on the same models)
            self.valid = False
            self.schema_rejected = str(e)[:300]


def run_impl(env, op_name, variables, oracle):
    from graphql import execute_sync

    log = []
    kind = next(k for n, k in env_ops(env) if n == op_name)
    root = env.m[kind]
    r = execute_sync(env.schema, env.doc, root_value=oracle.root(root), variable_values=variables,
                     operation_name=op_name,
                     field_resolver=make_field_resolver(oracle, log, env.out_names))
    return r, log


def env_ops(env):
    return [(d.get("n"), "query" if d.get("short") else d["op"]) for d in env.tree["defs"]
            if d["k"] == "op"]


def eval_request(env, sc, op_name, vardefs, variables, oseed, density, case):
    vs = []

    def bad(rel, detail):
        vs.append(Violation(("C02", rel), detail, case, {"relation": rel}))

    oracle_ref = R5.Oracle(env.m, oseed, density)
    ref = R5.execute(env.m, env.tree, op_name, vardefs, variables, oracle_ref)
    oracle_impl = R5.Oracle(env.m, oseed, density)
    try:
        r, log = run_impl(env, op_name, variables, oracle_impl)
        f = r.formatted
    except Exception as e:  # noqa: BLE001
        bad("execute-raises", f"{type(e).__name__}: {e}; query {env.text!r} vars {variables!r}")
        return vs, None, ref
    if ref.get("ambiguous"):
        return vs, None, ref  # an unbound variable inside a custom scalar literal: scalar-defined
    if ref["request_error"]:
        if f.get("data") is not None or not f.get("errors"):
            bad("variable-coercion", f"specification rejects the variables {variables!r} for "
                f"{env.text!r} but the response is {str(f)[:200]}")
        return vs, f, ref
    if "data" not in f or (f["data"] is None and ref["data"] is not None and not any(
            e.get("path") for e in f.get("errors", []))):
        bad("unexpected-request-error", f"{f.get('errors')}; query {env.text!r} vars {variables!r}")
        return vs, f, ref
    d = ordered_eq(f["data"], ref["data"])
    if d:
        bad("data", f"{d}; query {env.text!r} vars {variables!r} seed {oseed} density {density}")
    got_paths = sorted(json.dumps(e.get("path")) for e in f.get("errors", []))
    want_paths = sorted(json.dumps(p) for p in ref["error_paths"])
    if got_paths != want_paths:
        bad("error-paths", f"got {got_paths} expected {want_paths}; query {env.text!r} vars {variables!r} "
            f"seed {oseed} density {density}; messages {[e['message'][:80] for e in f.get('errors', [])][:3]}")
    got_calls = [(p, c, R5._norm(a)) for p, c, a in log]
    want_calls = [(p, c, R5._norm(a)) for p, c, a in ref["calls"]]
    if got_calls != want_calls:
        i = next((i for i, (x, y) in enumerate(zip(got_calls, want_calls)) if x != y),
                 min(len(got_calls), len(want_calls)))
        bad("resolver-arguments", f"call #{i}: got {got_calls[i:i + 1]} expected {want_calls[i:i + 1]}; "
            f"query {env.text!r} vars {variables!r}")
    return vs, f, ref


def eval_scenario(sc):
    from graphql import print_schema

    env = Env(sc)
    if not env.valid:
        if env.schema_rejected and sc["schema_mode"] != "sdl-invalid":
            v = Violation(("C02", "valid-schema-rejected"), f"the library refuses to execute on a schema that is "
                          f"valid by construction: {env.schema_rejected}", dict(sc), {"relation": "valid-schema-rejected"})
            return [v], 0, "schema-rejected", []
        return [], 0, "generator-invalid", []
    vs = []
    n = 0
    nt = []
    schema_print = print_schema(env.schema)
    first = {}
    for step, (oi, vi, density_i) in enumerate(sc["history"]):
        op_name, _kind = sc["doc"]["ops"][oi % len(sc["doc"]["ops"])]
        vardefs = sc["doc"]["vars"].get(op_name or "", {})
        variables = sc["varsets"][op_name or ""][vi % len(sc["varsets"][op_name or ""])]
        oseed, density = sc["oracles"][density_i % len(sc["oracles"])]
        case = dict(sc, history=[[oi, vi, density_i]])
        v1, f, ref = eval_request(env, sc, op_name, vardefs, variables, oseed, density, case)
        vs += v1
        n += 1
        key = (oi % len(sc["doc"]["ops"]), vi % len(sc["varsets"][op_name or ""]),
               density_i % len(sc["oracles"]))
        if f is not None:
            if key in first and first[key] != f:
                vs.append(Violation(("C02", "history"), f"the same request gave {str(first[key])[:150]} "
                                    f"first and {str(f)[:150]} after other requests; {env.text!r}",
                                    dict(sc), {"relation": "history"}))
            first.setdefault(key, f)
            if len(sc["doc"]["features"]) >= 2 and not ref.get("request_error") and (
                    count_leaves(ref.get("data")) >= 3 or ref.get("error_paths")):
                nt.append({"q": env.text, "v": variables, "o": [oseed, density]})
    if print_schema(env.schema) != schema_print:
        vs.append(Violation(("C02", "schema-mutated"), "print_schema changed after executing", dict(sc)))
    return vs, n, "ok", nt


def g_scenario(c):
    m = g2.g_model(c)
    doc = g3.g_document(c, m, depth=3)
    varsets = {}
    for name, vars_ in doc["vars"].items():
        varsets[name] = [g3.g_variable_values(c, m, vars_, "valid"),
                         g3.g_variable_values(c, m, vars_, "valid"),
                         g3.g_variable_values(c, m, vars_, "any")]
    oracles = [[c.pick(1000), 0], [c.pick(1000), c.choose([0, 12, 30, 60])]]
    history = [[c.pick(4), c.pick(3), c.pick(2)] for _ in range(c.count(3, 7))]
    history.append(list(history[0]))
    return {"model": dict(m), "doc": doc, "varsets": varsets, "oracles": oracles, "history": history,
            "schema_mode": c.choose(["prog", "prog-out-names", "sdl"]),
            "layout": c.ints(5) if c.chance(60) else [], "no_location": c.chance(60)}


def _scenarios(nex):
    def fn(ctx, shard, nshards):
        def body(sc):
            vs, n, status, nt = eval_scenario(sc)
            ctx.count(n)
            ctx.cls("status:" + status)
            for f in sc["doc"]["features"]:
                ctx.cls("feature:" + f)
            for x in nt:
                ctx.nontriv(x)
            if nt:
                ctx.sample("request", nt[0])
            ctx.check(vs)

        given_run(ctx, from_bytes(g_scenario, 3072), body, max_examples=nex)

    return fn


def subchecks(tier):
    if tier == "quick":
        return [Sub("scenarios", _scenarios(2200), shards=14)]
    return [Sub("scenarios", _scenarios(12000), shards=16)]


def replay(case):
    return eval_scenario(case)[0]
