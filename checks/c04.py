"""C04 - incremental delivery reassembles to the non-incremental response.

Requests with @defer/@stream (nested, labelled, if:false, overlapping fragments, streams of objects
containing defers) run through experimental_execute_incrementally under the deterministic scheduler
(resolver gates, list item gates, async-iterator sources, consumer pulls), early execution on and off.
The payloads are applied as the delivery format prescribes (vkit/harness/incremental.py) and compared
with the reference executor R5 on the same operation with the directives ignored:
  (a) reference error-free            => assembled data == reference data, no errors in any payload
  (b) error propagation disabled      => assembled data == non-propagating reference, same error paths
  (c) otherwise (errors propagate)    => refinement: leaves equal; a null where the non-propagating
      reference has a value is accounted by an error at or below; a missing key lies under the path of
      an id completed with errors; a shorter list belongs to a stream completed with errors
A plain ExecutionResult (nothing deferred) equals the reference response.
"""

from __future__ import annotations

import json

from checks import c02
from vkit.core import Sub, Violation, given_run
from vkit.gen import g2, g3
from vkit.gen.choice import from_bytes
from vkit.harness.incremental import Assembler, defer_nesting, run_incremental
from vkit.harness.resolvers import AsyncPlan
from vkit.harness.sched import Hang, StepLimit
from vkit.ref import execute as R5

ID = "C04"
RULE = (
    "schema models with the incremental directives; type-directed documents with @defer on inline and "
    "named fragment spreads (nested, sibling, overlapping, if:false) and @stream on list fields "
    "(initialCount 0-5, if); variables; data oracle with natural nulls and planted faults; async plan "
    "(awaitable fields, items, async-iterator list sources); 4 (thorough 12) schedules x early execution "
    "in {off, on}; a quarter of the operations carry @experimental_disableErrorPropagation. Non-trivial: "
    ">= 1 payload beyond the initial one and >= 2 of {nested defer, sibling defers, defer under a list, "
    "stream with initialCount < length, stream of objects containing a defer, fault inside a deferred or "
    "streamed part}. Distinct by hash of (request, plan, consumed schedule, early)."
)
ASSUMPTIONS = [
    "key order of assembled objects is not compared (payload boundaries legitimately reorder keys)",
    "labels are unique per document (validation requires it)",
    "the reference executor ignores @defer/@stream, i.e. it is the same operation with the directives disabled",
]


def uneq(a, b, path=""):
    """Unordered-dict / ordered-list equality; first difference or None."""
    if isinstance(a, dict) and isinstance(b, dict):
        if set(a) != set(b):
            return f"{path}: keys {sorted(a)} != {sorted(b)}"
        for k in a:
            d = uneq(a[k], b[k], f"{path}/{k}")
            if d:
                return d
        return None
    if isinstance(a, list) and isinstance(b, list):
        if len(a) != len(b):
            return f"{path}: list length {len(a)} != {len(b)}"
        for i, (x, y) in enumerate(zip(a, b)):
            d = uneq(x, y, f"{path}/{i}")
            if d:
                return d
        return None
    if isinstance(a, bool) != isinstance(b, bool) or a != b:
        return f"{path}: {a!r} != {b!r}"
    return None


def refine(a, r, path, asm, probs):
    """Refinement relation A <= R of case (c)."""
    if len(probs) > 3:
        return
    if r is None:
        if a is not None:
            probs.append(f"{_p(path)}: assembled {str(a)[:60]!r} where the reference has null")
        return
    if a is None:
        if not any(list(e.get("path") or [])[:len(path)] == list(path) for e in asm.errors):
            probs.append(f"{_p(path)}: null without an error at or below")
        return
    if isinstance(r, dict):
        if not isinstance(a, dict):
            probs.append(f"{_p(path)}: {type(a).__name__} where the reference has an object")
            return
        extra = set(a) - set(r)
        if extra:
            probs.append(f"{_p(path)}: keys {sorted(extra)} not in the reference")
        for k in r:
            if k not in a:
                if not any(list(path)[:len(c["path"])] == c["path"] for c in asm.completed_with_errors):
                    probs.append(f"{_p(path + (k,))}: key withheld but no enclosing fragment or stream "
                                 "was reported as completed with errors")
            else:
                refine(a[k], r[k], path + (k,), asm, probs)
        return
    if isinstance(r, list):
        if not isinstance(a, list):
            probs.append(f"{_p(path)}: {type(a).__name__} where the reference has a list")
            return
        if len(a) > len(r):
            probs.append(f"{_p(path)}: list longer than the reference ({len(a)} > {len(r)})")
        if len(a) < len(r):
            if not any(c["path"] == list(path) or list(path)[:len(c["path"])] == c["path"]
                       for c in asm.completed_with_errors):
                probs.append(f"{_p(path)}: list has {len(a)} of {len(r)} items but no stream at this "
                             "path was completed with errors")
        for i, (x, y) in enumerate(zip(a, r)):
            refine(x, y, path + (i,), asm, probs)
        return
    if isinstance(a, bool) != isinstance(r, bool) or a != r:
        probs.append(f"{_p(path)}: leaf {a!r} != {r!r}")


def _p(path):
    return "/".join(str(x) for x in path) or "<root>"


def assemble(out, nesting):
    asm = Assembler(nesting)
    asm.initial(out["initial"].formatted)
    for p in out["subsequent"]:
        asm.subsequent(p.formatted)
    asm.finish()
    return asm


def structure_features(tree, asm, ref_errors):
    feats = set()
    labels = [lab for _id, _path, lab in asm.announced if lab]
    nesting = defer_nesting(tree)
    if any(nesting.get(l) for l in labels):
        feats.add("nested-defer")
    paths = [tuple(p) for _id, p, lab in asm.announced if lab and lab.startswith("D")]
    if len(paths) != len(set(paths)):
        feats.add("sibling-defers")
    if any(any(isinstance(k, int) for k in p) for _i, p, lab in asm.announced if lab and lab.startswith("D")):
        feats.add("defer-under-list")
    if any(lab and lab.startswith("S") for _i, _p2, lab in asm.announced):
        feats.add("stream-with-tail")
    stream_paths = [tuple(p) for _i, p, lab in asm.announced if lab and lab.startswith("S")]
    if any(sp == tuple(dp[:len(sp)]) for sp in stream_paths for dp in paths):
        feats.add("stream-of-objects-with-defer")
    if ref_errors and asm.payloads > 1:
        feats.add("fault")
    return feats


def eval_request(env, sc, op_name, vardefs, variables, oseed, density, plan_spec, schedule, early, case):
    vs = []
    prop = "C04"

    def bad(rel, detail, features=None):
        vs.append(Violation((prop, rel), f"{detail}; query {env.text!r} vars {variables!r} oracle "
                            f"{(oseed, density)} plan {plan_spec} schedule {schedule} early {early}", case,
                            dict({"relation": rel}, **(features or {}))))

    P = R5.execute(env.m, env.tree, op_name, vardefs, variables, R5.Oracle(env.m, oseed, density), True)
    if P.get("request_error") or P.get("ambiguous"):
        return vs, None, None
    R = R5.execute(env.m, env.tree, op_name, vardefs, variables, R5.Oracle(env.m, oseed, density), False)
    try:
        out = run_incremental(env, op_name, variables, oseed, density, AsyncPlan(*plan_spec), schedule, early)
    except Hang as h:
        bad("hang", str(h))
        return vs, None, None
    except StepLimit:
        return vs, None, None  # inconclusive
    except Exception as e:  # noqa: BLE001
        bad("execute-raises", f"{type(e).__name__}: {e}")
        return vs, None, None
    no_prop = sc.get("disable_propagation", False)
    want = R if no_prop else P
    if out["single"] is not None:
        f = out["single"].formatted
        d = uneq(f.get("data"), want["data"])
        if d:
            bad("plain-result-differs", d)
        return vs, out, None
    asm = assemble(out, defer_nesting(env.tree))
    f11 = any(r == "completed-for-unknown-id" and "ever announced: False" in d for r, d in asm.problems)
    f20 = any(r == "defer-target-not-object" and d.endswith(": missing") for r, d in asm.problems)
    feats = {"f11_unannounced_completed": f11, "f20_target_missing": f20}
    if not P["error_paths"]:
        d = uneq(asm.data, P["data"])
        if d:
            bad("assembled-differs", d, feats)
        if asm.errors:
            bad("errors-in-error-free-request", f"{asm.errors[0]}", feats)
    elif no_prop:
        d = uneq(asm.data, R["data"])
        if d:
            bad("assembled-differs-no-propagation", d, feats)
        got = sorted(json.dumps(e.get("path")) for e in asm.errors)
        wantp = sorted(json.dumps(p) for p in R["error_paths"])
        if got != wantp and not plan_spec[1] and not plan_spec[2] and not plan_spec[3]:
            bad("error-paths-no-propagation", f"got {got} expected {wantp}", feats)
    else:
        probs = []
        refine(asm.data, R["data"], (), asm, probs)
        if probs:
            bad("refinement", probs[0], feats)
    return vs, out, asm


def eval_scenario(sc, monitor_only=False):
    env = c02.Env(sc)
    if not env.valid:
        return [], 0, "generator-invalid", [], []
    vs, nt, monitor = [], [], []
    n = 0
    for oi, vi, di, pi in sc["runs"]:
        op_name, _k = sc["doc"]["ops"][oi % len(sc["doc"]["ops"])]
        vardefs = sc["doc"]["vars"].get(op_name or "", {})
        varsets = sc["varsets"][op_name or ""]
        variables = varsets[vi % len(varsets)]
        oseed, density = sc["oracles"][di % len(sc["oracles"])]
        plan_spec = sc["plans"][pi % len(sc["plans"])]
        for si, schedule in enumerate(sc["schedules"]):
            early = bool((si + sc.get("early_flip", 0)) % 2)
            case = dict(sc, runs=[[oi, vi, di, pi]], schedules=[schedule], early_flip=int(early))
            v1, out, asm = eval_request(env, sc, op_name, vardefs, variables, oseed, density, plan_spec,
                                        schedule, early, case)
            vs += v1
            if out is None:
                continue
            n += 1
            if asm is not None:
                monitor.append((asm, case, env.text, schedule, early, out))
                P_err = R5.execute(env.m, env.tree, op_name, vardefs, variables,
                                   R5.Oracle(env.m, oseed, density), True)["error_paths"]
                feats = structure_features(env.tree, asm, P_err)
                if asm.payloads > 1 and len(feats) >= 2:
                    nt.append({"q": env.text, "early": early, "shapes": [list(s) for s in asm.shapes][:8],
                               "features": sorted(feats)})
    return vs, n, "ok", nt, monitor


def g_scenario(c, n_sched=4):
    m = g2.g_model(c)
    doc = g3.g_document(c, m, depth=3, operation="query", incremental=True, n_ops=1)
    disable = c.chance(64)
    if disable:
        op = doc["tree"]["defs"][0]
        if op.get("short"):
            op.update({"short": False, "desc": None, "op": "query", "n": "Op0", "vars": [], "dirs": []})
            doc["ops"][0][0] = "Op0"
            doc["vars"] = {"Op0": doc["vars"].get("", {})}
        op["dirs"] = [{"n": "experimental_disableErrorPropagation", "args": []}]
    varsets = {name: [g3.g_variable_values(c, m, vars_, "valid"), g3.g_variable_values(c, m, vars_, "valid")]
               for name, vars_ in doc["vars"].items()}
    oracles = [[c.pick(1000), 0], [c.pick(1000), c.choose([0, 12, 30, 60])]]
    plans = [[c.pick(1000), c.choose([0, 60, 120, 200]), c.choose([0, 60, 160]), c.choose([0, 80, 200]), 0]
             for _ in range(2)]
    schedules = [c.ints(24, 8) for _ in range(n_sched)]
    runs = [[0, c.pick(2), c.pick(2), c.pick(2)] for _ in range(2)]
    if c.chance(64):
        # a quarter of the scenarios: generator sources whose finalisation is asynchronous (their `finally`
        # awaits a gate), so that payloads are produced and the stream ends while sources are still closing
        plans = [p + [0, 128] for p in plans]
    return {"model": dict(m), "doc": doc, "varsets": varsets, "oracles": oracles, "plans": plans,
            "schedules": schedules, "runs": runs, "schema_mode": c.choose(["prog", "prog-out-names"]),
            "incremental": True, "disable_propagation": disable, "early_flip": c.pick(2),
            "layout": [], "no_location": c.chance(40)}


def _scenarios(nex, n_sched):
    def fn(ctx, shard, nshards):
        def body(sc):
            vs, n, status, nt, _mon = eval_scenario(sc)
            ctx.count(n)
            ctx.cls("status:" + status)
            for x in nt:
                ctx.nontriv(x)
                for ftr in x["features"]:
                    ctx.cls("structure:" + ftr)
            if nt:
                ctx.sample("request", nt[0])
            ctx.check(vs)

        given_run(ctx, from_bytes(lambda c: g_scenario(c, n_sched), 3072), body, max_examples=nex)

    return fn


def _long_streams(nex):
    """Streamed lists longer than the capacity (100) of the stream item queue, read to the end: the items of
    the initial list plus all `items` batches are exactly 0..n-1 in order (generator and run function are
    shared with C06's back-pressure sub-check, which checks the stop invariants on the same runs)."""
    from checks import c06

    def fn(ctx, shard, nshards):
        def body(case):
            case = dict(case, stop={"kind": "none"})
            if case["fail_at"] is not None and not 0 <= case["fail_at"] < case["n"]:
                case["fail_at"] = None
            if case["fail_at"] is not None and case["source"] == "list":
                case["fail_at"] = None  # a plain list has no failing source
            vs, n, nt = c06.eval_backpressure(case, prop="C04")
            ctx.count(n)
            ctx.cls("long-stream:" + case["source"] + (":early" if case["early"] else ":lazy"))
            if nt:
                ctx.nontriv({k_: case[k_] for k_ in ("n", "initial", "doc", "source", "gated", "early")}, "long-stream")
            ctx.check(vs)

        given_run(ctx, from_bytes(c06.g_backpressure, 256), body, max_examples=nex)

    return fn


def subchecks(tier):
    if tier == "quick":
        return [Sub("scenarios", _scenarios(350, 4), shards=13, weight=4),
                Sub("long_streams", _long_streams(120), shards=3, weight=1)]
    return [Sub("scenarios", _scenarios(14000, 12), shards=16, weight=4),
            Sub("long_streams", _long_streams(6000), shards=16, weight=1)]


def replay(case):
    if "gated" in case and "n" in case:
        from checks import c06

        return c06.eval_backpressure(case, prop="C04")[0]
    return eval_scenario(case)[0]
