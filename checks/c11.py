"""C11 - AST traversal visits every node once, in order, and edits without mutating.

Oracle: R3 (vkit/ref/visit.py), a recursive reference traversal by dataclass reflection.
Sub-checks
  scripted   G1 trees (documents, values, types, coordinates; with and without locations) x
             scripted visitors (idle/skip/break/remove/replace/replace_str on enter or leave),
             generic or kind-specific handlers: call log == reference log, position arguments
             describe the node's real position, result == reference result, untouched subtrees
             are the same objects, input tree unchanged, no edit => identical object back
  parallel   2-4 non-editing scripts in one ParallelVisitor: each member's log == its solo log
  root       every decision on the root, on enter and on leave: returns without raising
  typeinfo   the same scripted visitors wrapped in TypeInfoVisitor(TypeInfo(schema), v) over documents
             written against a generated schema (valid, near-valid mutants, fragment arguments,
             grammar-random): the wrapped visitor sees the reference call log and returns the same
             result as the bare visitor; at every enter and leave the eleven TypeInfo getters report
             what the recursive reference R9 (vkit/ref/typeinfo.py) computes for that position, whatever
             was skipped, removed or replaced on leave elsewhere; after a complete traversal every
             getter is back to its initial value
"""

from __future__ import annotations

import dataclasses

from vkit.core import Sub, Violation, given_run
from vkit.gen import g1, g2, g3, g5
from vkit.gen.choice import from_bytes
from vkit.ref import typeinfo as R9
from vkit.ref import visit as R3

ID = "C11"
RULE = (
    "trees from the grammar generator (all node kinds incl. schema coordinates and experimental "
    "syntax), parsed with or without locations; scripts assign actions to (phase, preorder index) "
    "pairs: 0-4 decisions among skip/break/remove/replace/replace_str; handler style generic or "
    "kind-specific; parallel groups of 2-4 non-editing scripts. Non-trivial: >= 2 non-idle decisions, "
    "or 1 on a node with >= 2 children, or a parallel group with >= 1 skip/break. Distinct by hash of "
    "(tree, script)."
)
ASSUMPTIONS = [
    "the result value after BREAK and the result of removing the root are not compared (not specified); only no-raise, call log and immutability are",
    "document order of children is taken from source offsets of the parsed tree (parser checked by C08/C09)",
]

ACTIONS = ["skip", "remove", "replace", "break", "replace_str", "replace_kind"]


def make_visitor(script, id_map, root, log, problems, style_kinds=(), observer=None):
    from graphql.language import BREAK, REMOVE, SKIP, Visitor

    stack = []

    def walk(path):
        x = root
        for k in path:
            x = x[k] if isinstance(k, int) else getattr(x, k)
        return x

    def act(a, node):
        if a == "skip":
            return SKIP
        if a == "break":
            return BREAK
        if a == "remove":
            return REMOVE
        if a == "replace":
            return R3.copy_with_change(node)
        if a == "replace_kind":
            return R3.other_kind(node) or R3.copy_with_change(node)
        if a == "replace_str":
            return "X"
        return None

    def enter(self, node, key, parent, path, ancestors):
        if observer:
            observer("enter", node)
        idx = id_map.get(id(node), -1)
        pdesc = None if parent is None else ("list" if isinstance(parent, tuple) else
                                             getattr(parent, "kind", "?"))
        log.append(("enter", node.kind, key, tuple(path), pdesc, len(ancestors)))
        # position arguments describe the node's real position
        try:
            if idx >= 0 and not problems:
                if walk(path) is not node:
                    problems.append(f"enter {node.kind}: path {path} does not lead to the node")
                if parent is not None:
                    got = parent[key] if isinstance(key, int) else getattr(parent, key)
                    if got is not node:
                        problems.append(f"enter {node.kind}: parent[{key!r}] is not the node")
        except Exception as e:  # noqa: BLE001
            problems.append(f"enter {node.kind}: position arguments invalid: {e!r}")
        a = script.get(("enter", idx), "idle")
        if a in ("idle", "replace", "replace_kind"):
            stack.append(idx)
        return act(a, node)

    def leave(self, node, key, parent, path, ancestors):
        if observer:
            observer("leave", node)
        idx = stack.pop() if stack else -2
        pdesc = None if parent is None else ("list" if isinstance(parent, tuple) else
                                             getattr(parent, "kind", "?"))
        log.append(("leave", node.kind, key, tuple(path), pdesc, len(ancestors)))
        return act(script.get(("leave", idx), "idle"), node)

    ns = {"enter": enter, "leave": leave}
    for k in style_kinds:
        # "field": both directions kind-specific; "field:enter" / "field:leave": one direction only, the other
        # one falls back to the generic handler
        k, _, side = k.partition(":")
        if side != "leave":
            ns["enter_" + k] = enter
        if side != "enter":
            ns["leave_" + k] = leave
    cls = type("ScriptedVisitor", (Visitor,), ns)
    return cls()


def _first_diff(a, b):
    for i, (x, y) in enumerate(zip(a, b)):
        if x != y:
            return f"call #{i}: got {x} expected {y}"
    return f"length {len(a)} vs expected {len(b)}; next: {(a[len(b):] or b[len(a):])[:1]}"


def _identity_ok(exp, res, originals):
    """Wherever the expected result holds an original node object, the result must hold it too."""
    from graphql.language.ast import Node

    if isinstance(exp, Node) and id(exp) in originals:
        return res is exp
    if isinstance(exp, Node) and isinstance(res, Node) and type(exp) is type(res):
        return all(_identity_ok(getattr(exp, f.name), getattr(res, f.name), originals)
                   for f in dataclasses.fields(exp) if f.name != "loc")
    if isinstance(exp, tuple) and isinstance(res, tuple) and len(exp) == len(res):
        return all(_identity_ok(x, y, originals) for x, y in zip(exp, res))
    return True


def parse_root(tree, lay, no_location):
    """(root, located twin) for a G1 tree of any root kind."""
    from graphql.language import (parse, parse_const_value, parse_schema_coordinate, parse_type,
                                  parse_value)

    k = tree["k"]
    toks = g1.to_tokens(tree)
    if k == "doc":
        text = g1.layout(toks, lay)
        flags = dict(experimental_fragment_arguments=bool(tree.get("frag_args")),
                     experimental_directives_on_directive_definitions=bool(tree.get("dir_on_dir")))
        fn = lambda **kw: parse(text, **flags, **kw)  # noqa: E731
    elif k == "coord":
        text = g1.layout(toks, [], coordinate=True)
        fn = lambda **kw: parse_schema_coordinate(text, **kw)  # noqa: E731
    elif k in ("named", "listT", "nonnull"):
        text = g1.layout(toks, lay)
        fn = lambda **kw: parse_type(text, **kw)  # noqa: E731
    else:
        text = g1.layout(toks, lay)
        fn = lambda **kw: parse_value(text, **kw)  # noqa: E731
    twin = fn()
    root = fn(no_location=True) if no_location else twin
    return root, twin


def eval_case(case):
    from graphql.language import ParallelVisitor, print_ast, visit

    vs = []
    jc = {k: v for k, v in case.items()}

    def bad(rel, detail, cls="other"):
        vs.append(Violation(("C11", rel, cls), detail, jc, {"relation": rel, "class": cls}))

    root, twin = parse_root(case["tree"], case["lay"], case["no_location"])
    nodes = R3.preorder(root, twin)
    n = len(nodes)
    id_map = {id(x): i for i, x in enumerate(nodes)}
    originals = set(id_map)
    before = g1.sig(root)

    def mk_script(raw):
        return {(ph, i % n): a for ph, i, a in raw}

    script = mk_script(case["script"])
    acts = sorted(set(script.values()))
    cls = "+".join(acts) if acts else "idle"
    root_dec = [a for (ph, i), a in script.items() if i == 0]
    if root_dec:
        cls = "root:" + "+".join(sorted(root_dec))
    exp_log, exp_res, broke = R3.ref_visit(root, twin, script, id_map)
    log, problems = [], []
    style = [k for k in case.get("style", [])]
    v = make_visitor(script, id_map, root, log, problems, style)
    try:
        res = visit(root, v)
    except Exception as e:  # noqa: BLE001
        bad("visit-raises", f"{type(e).__name__}: {e}; script {sorted(script.items())}", cls)
        return vs, n, script
    if log != exp_log:
        bad("call-log", _first_diff(log, exp_log) + f"; script {sorted(script.items())}", cls)
    for p in problems[:1]:
        bad("position-arguments", p, cls)
    if g1.sig(root) != before or [id(x) for x in R3.preorder(root, twin)] != [id(x) for x in nodes]:
        bad("input-mutated", "the input tree changed", cls)
    edits = [a for a in script.values() if a in ("remove", "replace", "replace_str", "replace_kind")]
    if not broke and log == exp_log:
        root_removed = exp_res is R3.REMOVED
        if not root_removed:
            if g1.sig(res) != g1.sig(exp_res):
                bad("result-tree", f"{g1.sig_diff(g1.sig(res), g1.sig(exp_res))}; "
                    f"script {sorted(script.items())}", cls)
            elif not _identity_ok(exp_res, res, originals):
                bad("result-identity", f"an untouched subtree was copied; script {sorted(script.items())}",
                    cls)
            elif exp_res is root and res is not root:
                bad("no-edit-identity", "visit without effective edit did not return the root object", cls)
            if edits and set(acts) <= {"remove", "idle", "skip"} and not root_dec and \
                    g1.sig(res) == g1.sig(exp_res):
                # removals the grammar allows must leave a printable tree
                try:
                    if _printable_after_removal(exp_res):
                        print_ast(res)
                except Exception as e:  # noqa: BLE001
                    bad("result-unprintable", f"print_ast of the edited tree raised {e!r}", cls)
    # parallel groups of non-editing scripts
    par = [mk_script(r) for r in case.get("parallel", [])]
    if len(par) >= 2:
        logs = [[] for _ in par]
        members = [make_visitor(s, id_map, root, lg, [], ()) for s, lg in zip(par, logs)]
        try:
            r = visit(root, ParallelVisitor(members))
            solo = [R3.ref_visit(root, twin, s, id_map)[0] for s in par]
            for i, (lg, ex) in enumerate(zip(logs, solo)):
                if lg != ex:
                    bad("parallel-log", f"member {i} of {len(par)}: {_first_diff(lg, ex)}; "
                        f"scripts {[sorted(s.items()) for s in par]}", "parallel")
                    break
            if r is not root:
                bad("no-edit-identity", "parallel non-editing visit did not return the root", "parallel")
        except Exception as e:  # noqa: BLE001
            bad("visit-raises", f"parallel: {type(e).__name__}: {e}", "parallel")
    return vs, n, script


def _printable_after_removal(exp):
    """Whether every required child is still present (so the grammar allows the removal)."""
    from graphql.language.ast import Node

    if isinstance(exp, Node):
        for f in dataclasses.fields(exp):
            if f.name == "loc":
                continue
            v = getattr(exp, f.name)
            required = f.default is dataclasses.MISSING and f.default_factory is dataclasses.MISSING
            if required and v is None:
                return False
            if f.name in ("selections", "operation_types", "locations") and v == ():
                return False
            if not _printable_after_removal(v):
                return False
        return True
    if isinstance(exp, tuple):
        return all(_printable_after_removal(x) for x in exp)
    return True


def nontrivial(case, n_nodes, script):
    non_idle = len(script)
    if non_idle >= 2:
        return True
    if case.get("parallel") and any(a in ("skip", "break") for r in case["parallel"] for _p, _i, a in r):
        return True
    return non_idle == 1 and n_nodes >= 3


def g_case(c):
    k = c.pick(10)
    if k == 0:
        tree = g1.g_coordinate(c)
    elif k == 1:
        tree = g1.g_value(c, False, 2)
    elif k == 2:
        tree = g1.g_type(c)
    else:
        tree = g1.g_document(c, max_defs=2)
    nsteps = c.count(0, 4)
    script = []
    for _ in range(nsteps):
        a = c.choose(["skip", "remove", "replace", "break", "replace_str", "remove", "replace", "replace_kind"])
        ph = "enter" if (a == "skip" or c.chance(128 if a != "replace_kind" else 200)) else "leave"
        script.append([ph, c.pick(400) if c.chance(200) else 0, a])
    par = []
    if c.chance(90):
        for _ in range(c.count(2, 4)):
            par.append([[("enter" if c.chance(170) else "leave"), c.pick(400),
                         c.choose(["skip", "skip", "break"])] for _ in range(c.count(0, 3))])
    style = [c.choose(["field", "name", "selection_set", "document", "operation_definition",
                       "directive", "argument", "named_type", "string_value", "list_value",
                       "object_type_definition", "variable", "inline_fragment"]) + c.choose(["", "", ":enter", ":leave"])
             for _ in range(c.count(0, 3))] if c.chance(100) else []
    return {"tree": tree, "lay": c.ints(6), "no_location": c.chance(70), "script": script,
            "parallel": par, "style": style}


def _scripted(nex):
    def fn(ctx, shard, nshards):
        def body(case):
            vs, n, script = eval_case(case)
            ctx.count(1 + len(case["parallel"]))
            for a in set(script.values()):
                ctx.cls("action:" + a)
            ctx.cls("root-kind:" + case["tree"]["k"])
            if case["parallel"]:
                ctx.cls("parallel")
            if nontrivial(case, n, script):
                ctx.nontriv({"t": case["tree"], "s": case["script"], "p": case["parallel"]})
                ctx.sample("+".join(sorted(set(script.values()))) or "idle", case)
            ctx.check(vs)

        given_run(ctx, from_bytes(g_case, 640), body, max_examples=nex)

    return fn


def _root(nex):
    """Every decision on the root node, enter and leave, over generated trees (exhaustive per tree)."""
    def fn(ctx, shard, nshards):
        def dec(c):
            return {"tree": g1.g_document(c, max_defs=1), "lay": c.ints(4),
                    "no_location": c.chance(100)}

        def body(base):
            for ph in ("enter", "leave"):
                for a in ACTIONS + ["idle"]:
                    case = dict(base, script=[] if a == "idle" else [[ph, 0, a]], parallel=[], style=[])
                    vs, _n, _s = eval_case(case)
                    ctx.count()
                    ctx.nontriv({"t": base["tree"], "ph": ph, "a": a}, f"root-{ph}-{a}")
                    ctx.check(vs)

        given_run(ctx, from_bytes(dec, 384), body, max_examples=nex)

    return fn


# ------------------------------------------------------------------------------------------
# typeinfo: scripted visitors wrapped in TypeInfoVisitor


def add_fragment_arguments(c, m, tree):
    """Give some fragments variable definitions and their spreads arguments (experimental syntax)."""
    frags = {d["n"]: d for d in tree["defs"] if d["k"] == "frag"}
    if not frags:
        return False
    declared = {}
    for name, d in frags.items():
        if c.chance(160):
            vs = []
            for i in range(c.count(1, 2)):
                t = g2.g_input_type(c, m)
                vs.append({"desc": None, "n": f"fa{i}", "t": g3._g1_type(t),
                           "default": g5.value_to_lit(m, t, g2.g_value(c, m, t, 2)) if c.chance(80) else None,
                           "dirs": []})
                declared.setdefault(name, []).append((f"fa{i}", t))
            d["vars"] = vs

    def walk(sels):
        for s in sels or []:
            if s["k"] == "spread" and c.chance(200):
                args = []
                for an, t in declared.get(s["n"], []):
                    if c.chance(200):
                        args.append([an, g5.value_to_lit(m, t, g2.g_value(c, m, t, 2))])
                if c.chance(40):
                    args.append(["undeclared", {"k": "list", "vs": [{"k": "enum", "v": "X"}]}])
                s["args"] = args or None
            elif s.get("sel"):
                walk(s["sel"])

    for d in tree["defs"]:
        walk(d.get("sel"))
    tree["frag_args"] = True
    return True


def eval_typeinfo(case):
    from graphql.language import parse, visit
    from graphql.utilities import TypeInfo, TypeInfoVisitor

    vs = []
    jc = dict(case)

    def bad(rel, detail, cls="typeinfo"):
        vs.append(Violation(("C11", rel, cls), detail, jc, {"relation": rel, "class": cls}))

    m = g2.as_model(case["model"])
    schema = g2.build(m)
    tree = case["tree"]
    text = g1.layout(g1.to_tokens(tree), case["lay"])
    flags = dict(experimental_fragment_arguments=bool(tree.get("frag_args")))
    try:
        twin = parse(text, **flags)
    except Exception:  # noqa: BLE001
        return vs, 0, {}
    root = parse(text, no_location=True, **flags) if case["no_location"] else twin
    nodes = R3.preorder(root, twin)
    n = len(nodes)
    id_map = {id(x): i for i, x in enumerate(nodes)}
    script = {(ph, i % n): a for ph, i, a in case["script"]}
    exp_log, _exp_res, broke = R3.ref_visit(root, twin, script, id_map)
    expected = R9.expected(schema, root)
    # bare run
    log0, problems0 = [], []
    try:
        res0 = visit(root, make_visitor(script, id_map, root, log0, problems0, case.get("style", [])))
    except Exception as e:  # noqa: BLE001
        bad("visit-raises", f"bare: {type(e).__name__}: {e}")
        return vs, n, script
    # wrapped run
    log, problems = [], []
    ti = TypeInfo(schema)
    initial = R9.observe(ti)
    seen = []
    replaced_on_enter = any(ph == "enter" and a in ("replace", "replace_kind") for (ph, _i), a in script.items())
    inner = make_visitor(script, id_map, root, log, problems, case.get("style", []),
                         observer=lambda ph, node: seen.append((ph, id(node), node.kind, R9.observe(ti))))
    try:
        res = visit(root, TypeInfoVisitor(ti, inner))
    except Exception as e:  # noqa: BLE001
        bad("visit-raises", f"wrapped in TypeInfoVisitor: {type(e).__name__}: {e}; "
            f"script {sorted(script.items())}")
        return vs, n, script
    if log != exp_log:
        bad("typeinfo-call-log", _first_diff(log, exp_log) + f"; script {sorted(script.items())}")
    elif log0 == exp_log and g1.sig(res) != g1.sig(res0) and not broke:
        bad("typeinfo-result", f"wrapped and bare visitor return different trees; script {sorted(script.items())}")
    for p in problems[:1]:
        bad("position-arguments", "wrapped: " + p)
    if not replaced_on_enter:
        for ph, nid, kind, got in seen:
            want = expected.get(nid)
            if want is not None and got != want:
                diff = [f"{f}: got {g!r} expected {w!r}" for f, g, w in zip(R9.FIELDS, got, want) if g != w]
                bad("typeinfo-values", f"{ph} {kind} (preorder #{id_map.get(nid)}): {diff[:3]}; "
                    f"script {sorted(script.items())}; {text!r}")
                break
    if not broke:
        final = R9.observe(ti)
        if final != initial:
            diff = [f"{f}: {g!r}" for f, g, w in zip(R9.FIELDS, final, initial) if g != w]
            bad("typeinfo-unbalanced", f"after the traversal: {diff}; script {sorted(script.items())}; {text!r}")
    return vs, n, script


def g_typeinfo_case(c):
    m = g2.g_model(c)
    k = c.pick(10)
    stratum = "valid"
    if k <= 6:
        doc = g3.g_document(c, m, depth=3)
        if k >= 3:
            for _ in range(c.count(1, 2)):
                r = g3.mutate_document(c, m, doc)
                if r is not None:
                    doc = r[0]
                    stratum = "mutant"
        tree = doc["tree"]
        if c.chance(110) and add_fragment_arguments(c, m, tree):
            stratum += "+fragment-arguments"
    else:
        tree = g1.g_document(c, mode="exec", max_defs=3)
        stratum = "grammar-random"
    nsteps = c.count(0, 4)
    script = []
    for _ in range(nsteps):
        a = c.choose(["skip", "skip", "remove", "replace", "break", "replace_str", "remove", "skip", "replace_kind"])
        ph = "enter" if (a == "skip" or c.chance(150)) else "leave"
        script.append([ph, c.pick(600), a])
    style = [c.choose(["field", "name", "selection_set", "argument", "directive", "variable",
                       "inline_fragment", "fragment_spread", "list_value", "object_field"]) + c.choose(["", ":enter", ":leave"])
             for _ in range(c.count(0, 2))] if c.chance(80) else []
    return {"model": dict(m), "tree": tree, "lay": c.ints(4) if c.chance(60) else [],
            "no_location": c.chance(70), "script": script, "style": style, "stratum": stratum}


def _typeinfo(nex):
    def fn(ctx, shard, nshards):
        def body(case):
            vs, n, script = eval_typeinfo(case)
            if not n:
                return
            ctx.count(2)
            ctx.cls("typeinfo:" + case["stratum"])
            for a in set(script.values()):
                ctx.cls("typeinfo-action:" + a)
            if script and n >= 6:
                ctx.nontriv({"t": case["tree"], "s": case["script"], "ti": 1})
                ctx.sample("typeinfo:" + case["stratum"], case)
            ctx.check(vs)

        given_run(ctx, from_bytes(g_typeinfo_case, 3072), body, max_examples=nex)

    return fn


def subchecks(tier):
    if tier == "quick":
        return [Sub("scripted", _scripted(7000), shards=12, weight=3),
                Sub("root", _root(500), shards=2, weight=1),
                Sub("typeinfo", _typeinfo(1500), shards=6, weight=2)]
    return [Sub("scripted", _scripted(100000), shards=16, weight=3),
            Sub("root", _root(6000), shards=8, weight=1),
            Sub("typeinfo", _typeinfo(40000), shards=16, weight=2)]


def replay(case):
    if "model" in case:
        return eval_typeinfo(case)[0]
    return eval_case(case)[0]
