"""C03 - the response does not depend on when resolvers complete.

Harness H1 (vkit/harness/sched.py) owns the completion order of every awaitable the resolvers hand out
(field results, list items, async iterators, resolve_type results).  For every explored schedule:
  data == the reference executor's data (R5; the fully synchronous run is tied to R5 by C02) and
  == the fully synchronous run of the implementation; every error path ends at or below a null in data;
  every position the reference nulls has >= 1 error at or below it; no null at a non-null position
  (shape checker); no hang; no exception reaches the loop's exception handler; mutations run their top-level fields
  strictly one after another in document order.
"""

from __future__ import annotations

import json

from checks import c02
from vkit.core import Sub, Violation, given_run
from vkit.gen import g1, g2, g3
from vkit.gen.choice import from_bytes
from vkit.harness.resolvers import AsyncPlan, make_async_resolvers, make_field_resolver
from vkit.harness.sched import Hang, Sched, StepLimit
from vkit.ref import execute as R5

ID = "C03"
RULE = (
    "C02's request domain with smaller documents, plus an async plan (which field results, list items, "
    "iterators and resolve_type results are awaitable; decided per response path) and 6 (thorough 24) "
    "schedules per request chosen by Hypothesis-drawn integers; mutation operations with several top-level "
    "fields. Non-trivial: >= 2 awaitables whose relative completion order the schedule actually varied and "
    "(an object-typed field resolved after an await, a fault, or a mutation). Distinct by hash of (request, "
    "async plan, consumed schedule prefix)."
)
ASSUMPTIONS = [
    "the scheduler controls completion order at quiescence granularity (callbacks of one loop iteration keep asyncio's FIFO order)",
    "number and choice of reported errors may vary with the schedule when siblings fail under one nullable parent; data and the accounted-nulls relation are compared",
]


def null_position(data, path):
    """The prefix of path at which data holds null (or None when the walk does not end in a null)."""
    cur = data
    for i, k in enumerate(path):
        if cur is None:
            return list(path[:i])
        try:
            cur = cur[k]
        except (KeyError, IndexError, TypeError):
            return None
    return list(path) if cur is None else None


def run_async(env, op_name, variables, oseed, density, plan, schedule):
    from graphql import execute
    from inspect import isawaitable

    oracle = R5.Oracle(env.m, oseed, density)
    sched = Sched(schedule)
    events, log = [], []
    typing = "is_type_of" if env.typing == "is_type_of" else "resolver"
    resolve, resolve_type = make_async_resolvers(oracle, sched, plan, events, log, env.out_names,
                                                 typing=typing)
    kind = next(k for n, k in c02.env_ops(env) if n == op_name)
    root = oracle.root(env.m[kind])
    if typing == "is_type_of":
        env.typing_hook["fn"] = resolve.is_type_of
        resolve_type = None  # the default type resolver has to ask every possible type's is_type_of
        from vkit.harness.resolvers import hide_typename

        root = hide_typename(root)

    async def main():
        r = execute(env.schema, env.doc, root_value=root, variable_values=variables,
                    operation_name=op_name, field_resolver=resolve, type_resolver=resolve_type)
        if isawaitable(r):
            r = await r
        return r

    try:
        r = sched.run(main())
        env.typing_hook["fn"] = env.default_typing
        left = [g[0] for g in sched.pending_gates()]
        return {"result": r, "events": events, "log": log, "trace": sched.trace, "varied": sched.varied,
                "pending_gates": left, "unhandled": list(sched.unhandled), "gates": len(sched.gates)}
    finally:
        env.typing_hook["fn"] = env.default_typing
        sched.drain()
        sched.close()


def eval_request(env, op_name, vardefs, variables, oseed, density, plan_spec, schedules, case):
    from vkit.ref import shape

    vs = []

    def bad(rel, detail):
        vs.append(Violation(("C03", rel), detail, case, {"relation": rel}))

    ref = R5.execute(env.m, env.tree, op_name, vardefs, variables, R5.Oracle(env.m, oseed, density))
    if ref.get("request_error") or ref.get("ambiguous"):
        return vs, 0, []
    sync_r, _log = c02.run_impl(env, op_name, variables, R5.Oracle(env.m, oseed, density))
    sync_f = sync_r.formatted
    kind = next(k for n, k in c02.env_ops(env) if n == op_name)
    nt = []
    n = 0
    for schedule in schedules:
        plan = AsyncPlan(*plan_spec)
        try:
            out = run_async(env, op_name, variables, oseed, density, plan, schedule)
        except Hang as h:
            bad("hang", f"{h}; query {env.text!r} vars {variables!r} plan {plan_spec} schedule {schedule}")
            continue
        except StepLimit:
            continue  # inconclusive
        except Exception as e:  # noqa: BLE001
            bad("execute-raises", f"{type(e).__name__}: {e}; query {env.text!r} plan {plan_spec} "
                f"schedule {schedule}")
            continue
        n += 1
        f = out["result"].formatted
        ctxt = f"query {env.text!r} vars {variables!r} oracle {(oseed, density)} plan {plan_spec} schedule {schedule}"
        d = c02.ordered_eq(f.get("data"), ref["data"])
        if d:
            bad("data-vs-reference", f"{d}; {ctxt}")
        elif c02.ordered_eq(f.get("data"), sync_f.get("data")):
            bad("data-vs-sync", f"{c02.ordered_eq(f.get('data'), sync_f.get('data'))}; {ctxt}")
        errors = f.get("errors", [])
        data = f.get("data")
        for e in errors:
            p = e.get("path")
            if p is None or null_position(data, p) is None:
                bad("error-path-not-at-null", f"error at {p} does not end at or below a null; {ctxt}")
                break
        if data is None and not errors:
            bad("null-data-without-error", ctxt)
        got_nulled = {json.dumps(null_position(data, e["path"])) for e in errors if e.get("path") is not None}
        for p in ref["error_paths"]:
            np_ = null_position(ref["data"], p)
            if json.dumps(np_) not in got_nulled:
                bad("null-without-error", f"reference nulls {np_} (error at {p}) but no reported error "
                    f"accounts for it: {[e.get('path') for e in errors]}; {ctxt}")
                break
        if data is not None and not d:
            types = ref["types"]
            probs = shape.check(env.schema, env.doc, data, ref["variables"], op_name,
                                runtime_type_of=lambda t, v, path: types.get(tuple(path)))
            # nulls placed by error propagation are legal only at nullable positions: the shape checker
            # flags a null at a non-null position
            probs = [p for p in probs if "null at non-null" in p]
            if probs:
                bad("null-at-non-null", f"{probs[0]}; {ctxt}")
        if out["unhandled"]:
            bad("unhandled-loop-exception", f"{out['unhandled'][:2]}; {ctxt}")
        if kind == "mutation":
            msg = check_serial(out["events"], env, op_name, ref)
            if msg:
                bad("mutation-not-serial", f"{msg}; {ctxt}")
        if out["varied"] >= 2 and (kind == "mutation" or ref["error_paths"] or out["gates"] >= 2):
            nt.append({"q": env.text, "plan": list(plan_spec), "trace": out["trace"][:12]})
    return vs, n, nt


def check_serial(events, env, op_name, ref):
    """Top-level mutation fields run one after another in document order."""
    order = list(ref["data"].keys()) if isinstance(ref["data"], dict) else []
    if not order:
        # data nulled: use the order of first starts as observed, they must still be serial
        order = []
        for kind, path in events:
            if kind == "start" and len(path) == 1 and path[0] not in order:
                order.append(path[0])
    first_start = {}
    last_event = {}
    errored = {p[0] for p in ref["error_paths"] if p}
    # after a field error the executor abandons the nulled subtree and lets the awaitables already
    # created there settle in the background (documented: "they must still be settled"); settling runs
    # the rest of that subtree, including resolver calls below it, while the next top-level field may
    # already have started.  Events at or below a position nulled by error propagation do not count.
    nulled = [np_ for np_ in (null_position(ref["data"], p) for p in ref["error_paths"]) if np_ is not None]
    for i, (kind, path) in enumerate(events):
        k = path[0]
        if kind == "start" and len(path) == 1 and k not in first_start:
            first_start[k] = i
        if any(path[:len(np_)] == np_ for np_ in nulled) and len(path) > 1:
            continue
        # in a subtree with an error elsewhere only new *starts* count
        if kind == "start" or k not in errored:
            last_event[k] = i
    started = [k for k in order if k in first_start]
    for a, b in zip(started, started[1:]):
        if first_start[b] < last_event[a]:
            return f"top-level field {b!r} started before {a!r} and its subtree completed"
    if [k for k in sorted(first_start, key=first_start.get)] != started:
        return f"top-level fields started in order {sorted(first_start, key=first_start.get)}, document order {started}"
    return None


def eval_scenario(sc):
    env = c02.Env(sc)
    if not env.valid:
        return [], 0, "generator-invalid", []
    vs, n, nt = [], 0, []
    for oi, vi, di, pi in sc["runs"]:
        op_name, _k = sc["doc"]["ops"][oi % len(sc["doc"]["ops"])]
        vardefs = sc["doc"]["vars"].get(op_name or "", {})
        varsets = sc["varsets"][op_name or ""]
        variables = varsets[vi % len(varsets)]
        oseed, density = sc["oracles"][di % len(sc["oracles"])]
        plan_spec = sc["plans"][pi % len(sc["plans"])]
        case = dict(sc, runs=[[oi, vi, di, pi]])
        v1, k, t1 = eval_request(env, op_name, vardefs, variables, oseed, density, plan_spec,
                                 sc["schedules"], case)
        vs += v1
        n += k
        nt += t1
    return vs, n, "ok", nt


def g_scenario(c, n_sched=6):
    m = g2.g_model(c)
    doc = g3.g_document(c, m, depth=3)
    varsets = {name: [g3.g_variable_values(c, m, vars_, "valid"), g3.g_variable_values(c, m, vars_, "valid")]
               for name, vars_ in doc["vars"].items()}
    oracles = [[c.pick(1000), 0], [c.pick(1000), c.choose([12, 30, 60])]]
    plans = [[c.pick(1000), c.choose([60, 120, 200]), c.choose([0, 60, 160]), c.choose([0, 0, 80, 200]),
              c.choose([0, 0, 100])] for _ in range(2)]
    schedules = [c.ints(14, 8) for _ in range(n_sched)]
    runs = [[c.pick(4), c.pick(2), c.pick(2), c.pick(2)] for _ in range(2)]
    return {"model": dict(m), "doc": doc, "varsets": varsets, "oracles": oracles, "plans": plans,
            "schedules": schedules, "runs": runs, "schema_mode": c.choose(["prog", "prog-out-names", "sdl"]),
            "typing": c.choose(["resolver", "resolver", "is_type_of"]),
            "layout": [], "no_location": c.chance(60)}


def _scenarios(nex, n_sched):
    def fn(ctx, shard, nshards):
        def body(sc):
            vs, n, status, nt = eval_scenario(sc)
            ctx.count(n)
            ctx.cls("status:" + status)
            for x in nt:
                ctx.nontriv(x)
            if nt:
                ctx.sample("request", nt[0])
            ctx.check(vs)

        given_run(ctx, from_bytes(lambda c: g_scenario(c, n_sched), 3072), body, max_examples=nex)

    return fn


def subchecks(tier):
    if tier == "quick":
        return [Sub("scenarios", _scenarios(500, 6), shards=14)]
    return [Sub("scenarios", _scenarios(15000, 24), shards=16)]


def replay(case):
    return eval_scenario(case)[0]
