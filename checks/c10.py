"""C10 - every reported source location is the true line and column.

Oracle R2 (vkit.ref.loc).  Sub-checks:
  exhaustive   all strings <= L over an 11-symbol alphabet x all offsets: get_location, token
               line/column, syntax-error locations, str()/formatted of the error
  texts        Hypothesis texts over a GraphQL-ish weighted alphabet with arbitrary name and
               location_offset: same oracles plus excerpt line / caret column
  documents    G1-rendered documents (valid and mutated): every token and every AST node location,
               validation and execution errors located at their nodes
"""

from __future__ import annotations

import itertools

from vkit.core import Sub, Violation, given_run
from vkit.ref.loc import inside_crlf, loc, offset_class, split_lines

ID = "C10"
RULE = (
    "exhaustive: every string of length <= L (quick 5, thorough 6) over {a,space,LF,CR,U+000C,"
    "U+0085,U+2028,#,\",{,}} x every offset 0..len; texts: Hypothesis strings over a weighted "
    "GraphQL alphabet with generated Source name and location_offset; documents: grammar-generated "
    "documents, their mutants, and validation/execution errors. Non-trivial: the text has a line "
    "terminator or one of U+000B/C/1C-1E/85/2028/2029 before the checked offset/token/error "
    "position. Distinct by hash of (text, name, location_offset)."
)
ASSUMPTIONS = [
    "offsets between the CR and LF of one CRLF are not checked (no token or error can start there)",
    "excerpt line comparison only for lines <= 120 characters (longer lines are folded by design)",
    "R2 (vkit/ref/loc.py) is the trusted reading of the specification's LineTerminator",
]

ALPHABET = ["a", " ", "\n", "\r", "\x0c", "\x85", "\u2028", "#", '"', "{", "}"]
_SPECIAL = set("\n\r\x0b\x0c\x1c\x1d\x1e\x85\u2028\u2029")


def _nontrivial_prefix(text: str, k: int) -> bool:
    return any(c in _SPECIAL for c in text[:k])


def eval_text(text: str, name: str = "GraphQL request", off=(1, 1), *, all_offsets=True,
              do_parse=True):
    """All C10 oracles on one source text. Returns (violations, nontrivial)."""
    from graphql.error import GraphQLSyntaxError
    from graphql.language import Lexer, Source, SourceLocation, TokenKind, parse
    from graphql.language.location import get_location

    vs: list[Violation] = []
    nontrivial = False
    case = {"text": text, "name": name, "offset": list(off)}
    src = Source(text, name, SourceLocation(*off))

    def bad(rel, k, detail):
        vs.append(Violation(("C10", rel, offset_class(text, k)), detail, case,
                            {"class": offset_class(text, k), "relation": rel}))

    if all_offsets:
        for k in range(len(text) + 1):
            if inside_crlf(text, k):
                continue
            try:
                got = tuple(get_location(src, k))
            except Exception as e:  # noqa: BLE001
                bad("get_location-raises", k, f"get_location({text!r},{k}) raised {e!r}")
                continue
            want = loc(text, k)
            if got != want:
                bad("get_location", k, f"get_location({text!r},{k}) = {got}, true = {want}")
                break
        nontrivial = _nontrivial_prefix(text, len(text))

    # token line/column
    lexer = Lexer(src)
    err = None
    tok = lexer.token
    try:
        while True:
            # walk the linked list so that comments are seen too
            nxt = lexer.advance()
            t = tok.next
            while t is not None:
                if t.kind != TokenKind.SOF:
                    want = loc(text, t.start)
                    if (t.line, t.column) != want:
                        bad("token-line-column", t.start,
                            f"token {t.kind} at {t.start} has {(t.line, t.column)}, true {want}")
                    if _nontrivial_prefix(text, t.start):
                        nontrivial = True
                if t is nxt:
                    break
                t = t.next
            tok = nxt
            if nxt.kind == TokenKind.EOF:
                break
    except GraphQLSyntaxError as e:
        err = e
    except Exception:  # noqa: BLE001
        err = None  # not C10's business (C01 owns totality of the lexer)

    errors = []
    if err is not None:
        errors.append(err)
    if do_parse:
        try:
            parse(src)
        except GraphQLSyntaxError as e:
            errors.append(e)
        except Exception:  # noqa: BLE001
            pass
    for e in errors:
        vs.extend(check_error(e, text, name, off, case))
        if e.positions and _nontrivial_prefix(text, e.positions[0]):
            nontrivial = True
    return vs, nontrivial


def check_error(e, text, name, off, case, positions=None):
    """Locations, formatted, str() and excerpt of one GraphQLError with a source."""
    vs = []
    positions = list(e.positions or []) if positions is None else positions

    def bad(rel, k, detail):
        vs.append(Violation(("C10", rel, offset_class(text, k)), detail, case,
                            {"class": offset_class(text, k), "relation": rel}))

    k0 = positions[0] if positions else 0
    if positions and any(inside_crlf(text, p) for p in positions):
        return vs
    want = [loc(text, p) for p in positions]
    try:
        got = [tuple(l) for l in (e.locations or [])]
    except Exception as ex:  # noqa: BLE001
        bad("error-locations-raises", k0, f"{ex!r}")
        return vs
    if positions and got != want:
        bad("error-locations", k0, f"locations {got}, true {want} for positions {positions} in {text!r}")
    try:
        f = e.formatted
        fl = [(d["line"], d["column"]) for d in f.get("locations", [])]
        if positions and fl != want:
            bad("error-formatted-locations", k0, f"formatted {fl}, true {want} in {text!r}")
    except Exception as ex:  # noqa: BLE001
        bad("error-formatted-raises", k0, f"formatted raised {ex!r} for {text!r}")
    try:
        repr(e)
        s = str(e)
    except Exception as ex:  # noqa: BLE001
        bad("error-str-raises", k0, f"str(error) raised {ex!r} for {text!r}")
        return vs
    # excerpt: for each position the header name:line:col, the named line, and the caret
    pad = " " * (off[1] - 1)
    lines = split_lines(pad + text)
    out_lines = s.split("\n")
    for (ln, col) in want:
        line_num = ln + off[0] - 1
        col_num = col + (off[1] - 1 if ln == 1 else 0)
        header = f"{name}:{line_num}:{col_num}"
        if "\n" in name or "\r" in name:
            continue
        if header not in out_lines:
            bad("error-str-header", k0, f"str(error) lacks header {header!r}: {s!r}")
            continue
        body_line = lines[ln - 1]
        if len(body_line) > 120 or "\n" in body_line:
            continue
        exp = f"{line_num} |" + (" " + body_line if body_line else "")
        if not any(o.lstrip(" ") == exp for o in out_lines):
            bad("error-str-excerpt", k0, f"str(error) lacks excerpt {exp!r}: {s!r}")
        caret = "| " + "^".rjust(col_num)
        if not any(o.lstrip(" ") == caret for o in out_lines):
            bad("error-str-caret", k0, f"str(error) lacks caret line {caret!r}: {s!r}")
    return vs


# --------------------------------------------------------------------------------------


def _exhaustive(L):
    def fn(ctx, shard, nshards):
        # partition by the first two symbols
        prefixes = [p for p in itertools.product(ALPHABET, repeat=2)]
        mine = prefixes[shard::nshards]
        if shard == 0:
            for n in (0, 1):
                for t in itertools.product(ALPHABET, repeat=n):
                    _one(ctx, "".join(t))
        for p in mine:
            for n in range(0, L - 1):
                for t in itertools.product(ALPHABET, repeat=n):
                    _one(ctx, "".join(p + t))
        ctx.notes["max_len"] = L

    def _one(ctx, text):
        vs, nt = eval_text(text)
        ctx.count(len(text) + 1)
        ctx.cls("strings")
        if nt:
            ctx.nontriv({"text": text}, "exhaustive" if len(text) >= 4 else None)
        if vs:
            ctx.report(vs)

    return fn


def _texts(n):
    def fn(ctx, shard, nshards):
        from hypothesis import strategies as st

        atoms = st.sampled_from(
            ["\n", "\r", "\r\n", " ", "\t", ",", "\x0c", "\x0b", "\x85", "\u2028", "\u2029",
             "\x1c", "\x1e", "a", "query", "{", "}", "(", ")", ":", "$", "#c", '"', '"""', "\\",
             "1", "1.", "?", "\ufeff", "...", "@", "\u00e9", "\U0001f600", '"s"', '"""b\n c"""', "x:",
             '"""a\n\\"""b"""', '"""\r\n \\""" """', '\\"""', '"""\r', "\n\\\"\"\""]
        )
        text = st.lists(atoms, min_size=0, max_size=14).map("".join)
        name = st.sampled_from(["GraphQL request", "f.graphql", "a b", ""])
        off = st.tuples(st.integers(1, 40), st.integers(1, 40))
        strat = st.tuples(text, name, st.one_of(st.just((1, 1)), off))

        def body(case):
            t, nm, of = case
            vs, nt = eval_text(t, nm, of)
            ctx.count(len(t) + 1)
            if nt:
                ctx.nontriv({"text": t, "name": nm, "offset": list(of)}, "texts")
            ctx.cls("offset!=1,1" if of != (1, 1) else "offset=1,1")
            ctx.check(vs)

        given_run(ctx, strat, body, max_examples=n)

    return fn


SCHEMA_SDL = """
type Query { a: T, b(x: Int): Int, id: ID, name: String, f: [T], T: T, u: U }
type T { a: T, x: Int, y: String, id: ID, name: String, b(x: Int, y: String): Int }
type U { id: ID, c: Int }
"""
_schema = None


def eval_document(tree, lay, name, off, cut):
    """Token/node/error locations of a generated document (possibly cut short)."""
    from graphql import build_schema, validate
    from graphql.error import GraphQLSyntaxError
    from graphql.language import Source, SourceLocation, parse, visit, Visitor

    from vkit.gen import g1

    global _schema
    if _schema is None:
        _schema = build_schema(SCHEMA_SDL)
    text = g1.layout(g1.to_tokens(tree), lay)
    if cut is not None:
        text = text[: cut % (len(text) + 1)]
    vs, nt = eval_text(text, name, off, all_offsets=False, do_parse=True)
    case = {"text": text, "name": name, "offset": list(off)}
    src = Source(text, name, SourceLocation(*off))
    try:
        doc = parse(src, experimental_fragment_arguments=bool(tree.get("frag_args")),
                    experimental_directives_on_directive_definitions=bool(tree.get("dir_on_dir")))
    except GraphQLSyntaxError:
        return vs, nt, 1
    except Exception:  # noqa: BLE001
        return vs, nt, 1
    n = 1
    # every node's start token agrees with the reference location of its start offset
    bad_nodes = []

    class V(Visitor):
        def enter(self, node, *_a):
            l = node.loc
            if l is not None and l.start_token.kind.value != "<SOF>":
                want = loc(text, l.start)
                if (l.start_token.line, l.start_token.column) != want:
                    bad_nodes.append((node.kind, l.start, (l.start_token.line, l.start_token.column), want))

    visit(doc, V())
    for kind, k, got, want in bad_nodes[:1]:
        vs.append(Violation(("C10", "node-start-token", offset_class(text, k)),
                            f"node {kind} at {k}: start token says {got}, true {want} in {text!r}",
                            case, {"class": offset_class(text, k), "relation": "node-start-token"}))
    # validation errors are located at their nodes
    try:
        errors = validate(_schema, doc)
    except Exception:  # noqa: BLE001
        errors = []
    for e in errors[:8]:
        nodes = [nd for nd in (e.nodes or []) if nd.loc is not None]
        if not nodes:
            continue
        n += 1
        positions = [nd.loc.start for nd in nodes]
        vs.extend(check_error(e, text, name, off, case, positions=positions))
        if any(_nontrivial_prefix(text, p) for p in positions):
            nt = True
    return vs, nt, n


def _documents(nex):
    def fn(ctx, shard, nshards):
        from vkit.gen import g1
        from vkit.gen.choice import from_bytes

        def dec(c):
            tree = g1.g_document(c, mode=c.choose(["exec", "exec", "mixed", "sdl"]))
            lay = c.ints(14)
            name = c.choose(["GraphQL request", "f.graphql", "a b"])
            off = [1, 1] if c.chance(100) else [c.count(1, 30), c.count(1, 30)]
            cut = None if c.chance(140) else c.pick(4096)
            return {"tree": tree, "lay": lay, "name": name, "off": off, "cut": cut}

        def body(case):
            vs, nt, k = eval_document(case["tree"], case["lay"], case["name"], tuple(case["off"]),
                                      case["cut"])
            ctx.count(k)
            ctx.cls("cut" if case["cut"] is not None else "whole")
            if nt:
                ctx.nontriv(case, "document")
            ctx.check(vs)

        given_run(ctx, from_bytes(dec, 512), body, max_examples=nex)

    return fn


def subchecks(tier):
    if tier == "quick":
        return [Sub("exhaustive", _exhaustive(5), shards=8, weight=3, exhaustive=True),
                Sub("texts", _texts(6000), shards=4, weight=1),
                Sub("documents", _documents(5000), shards=4, weight=2)]
    return [Sub("exhaustive", _exhaustive(6), shards=16, weight=3, exhaustive=True),
            Sub("texts", _texts(80000), shards=16, weight=1),
            Sub("documents", _documents(60000), shards=16, weight=2)]


def replay(case):
    vs, _ = eval_text(case["text"], case.get("name", "GraphQL request"),
                      tuple(case.get("offset", (1, 1))))
    return vs
