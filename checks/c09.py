"""C09 - ignored tokens are ignored; the lexer implements the lexical grammar.

Sub-checks
  lex_exhaustive  all strings <= L over a 16-symbol lexical alphabet: implementation token list
                  (kind,start,end,value; comments included) == R1, reject <=> reject, spans
                  ordered/disjoint with ignored-only gaps, strip laws, token-limit law
  lex_soup        Hypothesis token soup from a table of lexical atoms incl. malformed ones
  relayout        G1 documents under several layouts: parse(relayout(s)) == parse(s),
                  strip idempotent, parse(strip(s)) == parse(s), max_tokens law, token_count
"""

from __future__ import annotations

import itertools

from vkit.core import Sub, Violation, given_run
from vkit.ref import lex as R1

ID = "C09"
RULE = (
    "lex_exhaustive: every string of length <= L (quick 5, thorough 6) over the 16-symbol alphabet "
    "{a,e,0,1,-,.,\",\\,u,{,#,$,space,LF,comma,BOM} compared token by token with the reference tokenizer R1; lex_soup: Hypothesis "
    "lists of lexical atoms (valid and malformed); relayout: grammar-generated documents rendered "
    "under 3 layouts + minimal layout + strip_ignored_characters. Non-trivial: the string lexes to "
    ">= 2 tokens or is rejected at offset > 0; for relayout a comment, BOM, comma or block string "
    "re-indentation was involved. Distinct by hash of the text."
)
ASSUMPTIONS = [
    "R1 (vkit/ref/lex.py) is the trusted reading of the lexical grammar; SourceCharacter = any Unicode scalar value",
    "\\u{...} escapes limited to 8 hex digits as in the reference implementation (not reachable by the enumerated alphabet)",
    "strings with surrogate code points are not compared with R1 (C01 covers their totality)",
]

ALPHA16 = ["a", "e", "0", "1", "-", ".", '"', "\\", "u", "{", "#", "$", " ", "\n", ",", "\ufeff"]
ALPHA12 = ["a", "e", "0", "1", "-", ".", '"', "\\", "#", " ", "\n", "u"]
IGNORED_CHARS = set("\ufeff\t ,\n\r")


def impl_tokens(text, coordinate=False):
    """Token list of the implementation incl. comments; (tokens, error?)"""
    from graphql.error import GraphQLSyntaxError
    from graphql.language import Lexer, Source, TokenKind
    from graphql.language.schema_coordinate_lexer import SchemaCoordinateLexer

    lexer = (SchemaCoordinateLexer if coordinate else Lexer)(Source(text))
    out = []
    err = None
    tok = lexer.token
    try:
        while True:
            nxt = lexer.advance()
            t = tok.next
            while t is not None:
                if t.kind not in (TokenKind.SOF, TokenKind.EOF):
                    out.append((t.kind.value, t.start, t.end, t.value))
                if t is nxt:
                    break
                t = t.next
            tok = nxt
            if nxt.kind == TokenKind.EOF:
                break
    except GraphQLSyntaxError as e:
        err = e
        # tokens read by lookahead before the failure (comments) are linked already
        t = tok.next
        while t is not None:
            if t.kind not in (TokenKind.SOF, TokenKind.EOF):
                out.append((t.kind.value, t.start, t.end, t.value))
            t = t.next
    return out, err


def eval_lex(text, coordinate=False, laws=True):
    """Compare implementation and R1 on one text; returns (violations, nontrivial)."""
    from graphql.error import GraphQLSyntaxError
    from graphql.utilities import strip_ignored_characters

    vs = []
    case = {"text": text, "coordinate": coordinate}

    def bad(rel, detail):
        vs.append(Violation(("C09", rel), detail, case, {"relation": rel}))

    ref, ref_err = R1.tokens(text, coordinate)
    try:
        got, err = impl_tokens(text, coordinate)
    except Exception as e:  # noqa: BLE001  (C01 owns crashes; still a lexer disagreement here)
        bad("lexer-crash", f"lexer raised {e!r} on {text!r}")
        return vs, False
    nontrivial = len(ref) >= 2 or (ref_err is not None and ref_err > 0)
    if (ref_err is None) != (err is None):
        bad("accept-reject", f"R1 {'rejects at %s' % ref_err if ref_err is not None else 'accepts'}"
            f" but lexer {'rejects: ' + err.message if err else 'accepts'} for {text!r}")
        return vs, nontrivial
    if got != ref:
        bad("token-list", f"lexer {got} != R1 {ref} for {text!r}")
        return vs, nontrivial
    # spans ordered, disjoint, gaps ignored-only
    pos = 0
    for kind, s, e, _v in got:
        if s < pos or e <= s:
            bad("span-order", f"token {kind} span {(s, e)} after {pos} in {text!r}")
        if any(ch not in IGNORED_CHARS for ch in text[pos:s]) and not coordinate:
            bad("span-gap", f"gap {text[pos:s]!r} before {kind}@{s} in {text!r}")
        pos = e
    if err is None and any(ch not in IGNORED_CHARS for ch in text[pos:]) and not coordinate:
        bad("span-gap", f"tail gap {text[pos:]!r} in {text!r}")
    if not laws or coordinate:
        return vs, nontrivial
    # strip laws at the lexical level
    try:
        st = strip_ignored_characters(text)
        st_err = None
    except GraphQLSyntaxError as e:
        st, st_err = None, e
    except Exception as e:  # noqa: BLE001
        bad("strip-crash", f"strip_ignored_characters raised {e!r} on {text!r}")
        return vs, nontrivial
    if (st_err is None) != (err is None):
        bad("strip-accept-reject", f"strip {'raises' if st_err else 'returns'} but lexing "
            f"{'fails' if err else 'succeeds'} for {text!r}")
    if st is not None:
        try:
            st2 = strip_ignored_characters(st)
        except Exception as e:  # noqa: BLE001
            bad("strip-idempotent", f"strip(strip(s)) raised {e!r}; s={text!r} strip={st!r}")
            return vs, nontrivial
        if st2 != st:
            bad("strip-idempotent", f"strip(strip(s)) {st2!r} != strip(s) {st!r} for {text!r}")
        ref2, ref2_err = R1.tokens(st)
        a = [(k, v) for k, _s, _e, v in R1.significant(ref)]
        b = [(k, v) for k, _s, _e, v in R1.significant(ref2)]
        if ref2_err is not None or a != b:
            bad("strip-tokens", f"tokens of strip(s) {b} (err {ref2_err}) != tokens of s {a}; "
                f"s={text!r} strip={st!r}")
    return vs, nontrivial


def _lex_exhaustive(L_full, L_sub):
    def fn(ctx, shard, nshards):
        def one(text):
            vs, nt = eval_lex(text)
            ctx.count()
            if nt:
                ctx.nontriv(text, "lex" if len(text) >= 4 and '"' in text else None)
            if vs:
                ctx.report(vs)

        def enum(alpha, L, lo):
            prefixes = list(itertools.product(alpha, repeat=2))
            if shard == 0 and lo <= 1:
                for n in (0, 1):
                    for t in itertools.product(alpha, repeat=n):
                        one("".join(t))
            for p in prefixes[shard::nshards]:
                for n in range(max(0, lo - 2), L - 1):
                    for t in itertools.product(alpha, repeat=n):
                        one("".join(p + t))

        enum(ALPHA16, L_full, 0)
        if L_sub > L_full:
            enum(ALPHA12, L_sub, L_sub)  # only the extra length (sub-alphabet strings of the
            # shorter lengths are contained in the full enumeration)
        ctx.notes["L_full"] = L_full
        ctx.notes["L_sub"] = L_sub
        # the five schema-coordinate shapes are covered by lex_soup/relayout
    return fn


ATOMS = [
    "a", "on", "query", "true", "null", "_", "e1", "E", "0", "1", "-1", "-0", "0.0", "1.5", "1e3",
    "1E-7", "-1.2e+3", "0.", "1e", "1e+", "-", "01", "00", "1.", ".5", "1..2", "1.a", "1a", "1_",
    "..", "...", ".", "....", "!", "$", "&", "(", ")", ":", "=", "@", "[", "]", "{", "}", "|",
    '""', '"a"', '"\\n"', '"\\u0041"', '"\\u{41}"', '"\\u{1F600}"', '"\\uD83D\\uDE00"',
    '"\\uD83D"', '"\\uDE00"', '"\\u{110000}"', '"\\u{}"', '"\\u12"', '"\\', '"\\x"', '"a', '"\n"',
    '"""', '""""""', '"""a"""', '"""\n  a\n   b\n  """', '"""\\""""""', '""" " """', '""""a"""',
    '"""a""""', '"""\r\n\ta"""', '""', "#", "#c", "# c\n", "#\r", " ", "\t", "\n", "\r", "\r\n", ",",
    "\ufeff", "\x0c", "\x00", "\u2028", "\u00e9", "\U0001F600", "'", "?", "~", "%", "\\", "\x7f",
]


def _lex_soup(n):
    def fn(ctx, shard, nshards):
        from hypothesis import strategies as st

        strat = st.lists(st.sampled_from(ATOMS), min_size=1, max_size=8).map("".join)

        def body(text):
            vs, nt = eval_lex(text)
            ctx.count()
            if nt:
                ctx.nontriv(text, "soup")
            ctx.check(vs)

        given_run(ctx, strat, body, max_examples=n)

        coord = st.lists(st.sampled_from(["a", "Type", ".", "(", ")", ":", "@", " ", "1", "_x", "#",
                                          "...", "$", "\u00e9"]), min_size=0, max_size=7).map("".join)

        def body2(text):
            vs, nt = eval_lex(text, coordinate=True)
            ctx.count()
            if nt:
                ctx.nontriv("coord:" + text, "coordinate-soup")
            ctx.check(vs)

        given_run(ctx, coord, body2, max_examples=max(200, n // 5), tag="coord")

    return fn


def eval_relayout(tree, layouts):
    """Metamorphic laws on one G1 document under several layouts."""
    from graphql.error import GraphQLSyntaxError
    from graphql.language import parse
    from graphql.utilities import strip_ignored_characters

    from vkit.gen import g1

    vs = []
    case = {"tree": tree, "layouts": layouts}
    n = 0

    def bad(rel, detail):
        vs.append(Violation(("C09", rel), detail, case, {"relation": rel}))

    flags = dict(experimental_fragment_arguments=bool(tree.get("frag_args")),
                 experimental_directives_on_directive_definitions=bool(tree.get("dir_on_dir")))
    toks = g1.to_tokens(tree)
    texts = [g1.layout(toks, lay) for lay in layouts] + [g1.layout(toks, [], minimal=True)]
    try:
        a0 = parse(texts[0], **flags)
    except GraphQLSyntaxError as e:
        bad("generated-text-rejected", f"{e.message}: {texts[0]!r}")
        return vs, 1
    s0 = g1.sig(a0)
    for t in texts[1:]:
        n += 1
        try:
            a = parse(t, **flags)
        except GraphQLSyntaxError as e:
            bad("relayout-rejected", f"{e.message}: {t!r} (original {texts[0]!r})")
            continue
        if g1.sig(a) != s0:
            bad("relayout-changes-ast", f"{g1.sig_diff(g1.sig(a), s0)}: {t!r} vs {texts[0]!r}")
    for t in texts[:2]:
        n += 1
        try:
            st = strip_ignored_characters(t)
            if strip_ignored_characters(st) != st:
                bad("strip-idempotent", f"strip(strip(s)) != strip(s) for {t!r}")
            a = parse(st, **flags)
            if g1.sig(a) != s0:
                bad("strip-changes-ast", f"{g1.sig_diff(g1.sig(a), s0)}: strip {st!r} of {t!r}")
        except Exception as e:  # noqa: BLE001
            bad("strip-raises", f"{e!r} for {t!r}")
    # token limit law
    t = texts[0]
    ref, err = R1.tokens(t)
    if err is None:
        ntok = len(R1.significant(ref))
        if a0.token_count != ntok:
            bad("token-count", f"token_count {a0.token_count} != {ntok} for {t!r}")
        for k in sorted({0, 1, ntok - 1, ntok, ntok + 1}):
            if k < 0:
                continue
            n += 1
            try:
                parse(t, max_tokens=k, **flags)
                ok = True
            except GraphQLSyntaxError:
                ok = False
            if ok != (k >= ntok):
                bad("max-tokens", f"max_tokens={k} {'accepts' if ok else 'rejects'} a document "
                    f"of {ntok} tokens: {t!r}")
    return vs, n


def _relayout(nex):
    def fn(ctx, shard, nshards):
        from vkit.gen import g1
        from vkit.gen.choice import from_bytes

        def dec(c):
            tree = g1.g_document(c)
            return {"tree": tree, "layouts": [c.ints(16), c.ints(9), c.ints(30)]}

        def body(case):
            vs, k = eval_relayout(case["tree"], case["layouts"])
            ctx.count(k)
            text = g1.layout(g1.to_tokens(case["tree"]), case["layouts"][0])
            feats = [f for f, present in (("comment", "#" in text), ("bom", "\ufeff" in text),
                                          ("block", '"""' in text), ("comma", "," in text)) if present]
            for f in feats:
                ctx.cls("layout:" + f)
            if feats:
                ctx.nontriv(case["tree"])
                ctx.sample("relayout:" + "+".join(feats), {"text": text})
            ctx.check(vs)

        given_run(ctx, from_bytes(dec, 512), body, max_examples=nex)

    return fn


def subchecks(tier):
    if tier == "quick":
        return [Sub("lex_exhaustive", _lex_exhaustive(5, 5), shards=12, weight=3, exhaustive=True),
                Sub("lex_soup", _lex_soup(6000), shards=2, weight=1),
                Sub("relayout", _relayout(7000), shards=6, weight=2)]
    return [Sub("lex_exhaustive", _lex_exhaustive(6, 6), shards=16, weight=3, exhaustive=True),
            Sub("lex_soup", _lex_soup(60000), shards=8, weight=1),
            Sub("relayout", _relayout(80000), shards=16, weight=2)]


def replay(case):
    if "tree" in case:
        return eval_relayout(case["tree"], case["layouts"])[0]
    vs, _ = eval_lex(case["text"], case.get("coordinate", False))
    return vs
