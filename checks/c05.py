"""C05 - the incremental payload stream obeys the delivery protocol.

Sub-checks
  end_to_end   every run of C04's domain with the protocol monitor (vkit/harness/incremental.py):
               ids announced exactly once before any data and never reused; every incremental entry
               targets a currently pending id and an existing object (defer) or list (stream) in the
               data assembled so far; every announced id completed exactly once, nothing for it after;
               a nested fragment is never announced while an announced enclosing fragment with a
               prefix path is pending; stream items extend the list in order (final list equals the
               reference when the stream completes without errors); hasNext is true on every payload
               except the last, nothing follows the last; the stream terminates (no hang)
  work_queue   direct drive of WorkQueue with harness groups / tasks / streams: bounded-exhaustive
               enumeration of small work graphs x every completion order (see _work_queue)
"""

from __future__ import annotations

import itertools

from checks import c02, c04
from vkit.harness import sq_drive
from vkit.core import Sub, Violation, given_run
from vkit.gen.choice import from_bytes
from vkit.ref import execute as R5

ID = "C05"
RULE = (
    "end_to_end: C04's generated requests x schedules x early execution with the protocol monitor on "
    "every payload; work_queue: all work graphs with <= 3 groups in every forest shape, <= 3 tasks per "
    "initial work in every non-empty antichain of groups, task outcome in {value, value + nested work, "
    "failure}, <= 2 streams with 0-2 items ending in {stop, failure}, x every order of completion events. "
    "Non-trivial: a trace with >= 2 ids and >= 1 of {failure, nested announcement, stream batch of >= 2, "
    "task shared by 2 groups}. Distinct by canonical payload-shape trace."
)
ASSUMPTIONS = [
    "direct drive respects the caller preconditions of IncrementalExecutor: the initial work has >= 1 task or stream, "
    "a task's groups are pairwise unrelated by ancestry, groups are defined in the same or an enclosing work",
    "at WorkQueue level a GroupFailureEvent for a never released group is allowed (a repository unit test asserts it); "
    "'completed only for announced ids' is enforced on publisher payloads",
]


def monitor_violations(asm, case, text, schedule, early, out, ref_lists_ok=None):
    vs = []
    for rule, detail in asm.problems:
        feats = {"rule": rule, "ever_announced": "ever announced: True" in detail}
        if rule == "defer-target-not-object":
            # does the target object exist once the whole stream has been applied?
            import re

            mm = re.search(r"path (\[.*?\]): missing", detail)
            feats["missing"] = bool(mm)
            if mm:
                import ast

                feats["exists_at_end"] = isinstance(asm._walk(ast.literal_eval(mm.group(1))), dict)
            # F20's mechanism: a statically enclosing fragment of the announced one was skipped (pruned by the
            # work queue, never announced).  Without that the violation has another cause.
            mi = re.search(r"^id (\S+) path", detail)
            me = next(((p_, lab) for i_, p_, lab in asm.announced if mi and str(i_) == mi.group(1)), None)
            skipped = False
            if me is not None and me[1] is not None:
                for enc, rels in (asm.nesting.get(me[1]) or {}).items():
                    seen = any(lab == enc and me[0][:len(q)] == q
                               and tuple(k for k in me[0][len(q):] if not isinstance(k, int)) in rels
                               for _i, q, lab in asm.announced)
                    skipped = skipped or not seen
            feats["parent_skipped"] = skipped
        if rule == "completed-for-unknown-id":
            feats["unannounced"] = "ever announced: False" in detail
            feats["with_errors"] = "with errors: True" in detail
        vs.append(Violation(("C05", rule), f"{detail}; query {text!r} schedule {schedule} early {early}",
                            case, feats))
    if out.get("unhandled"):
        vs.append(Violation(("C05", "unhandled-loop-exception"), f"{out['unhandled'][:2]}; {text!r}", case))
    return vs


def _end_to_end(nex, n_sched):
    def fn(ctx, shard, nshards):
        def body(sc):
            _vs, n, status, nt, monitor = c04.eval_scenario(sc)
            ctx.count(n)
            ctx.cls("status:" + status)
            allvs = []
            for asm, case, text, schedule, early, out in monitor:
                allvs += monitor_violations(asm, case, text, schedule, early, out)
                ids = len(asm.ever)
                interesting = (asm.completed_with_errors or any(b >= 2 for b in asm.stream_batches)
                               or len(asm.announced) > len([1 for s in asm.shapes[:1] for _ in range(s[1])]))
                if ids >= 2 and interesting:
                    ctx.nontriv([list(s) for s in asm.shapes], "trace")
                ctx.cls(f"payloads:{min(asm.payloads, 6)}")
            ctx.check(allvs)

        given_run(ctx, from_bytes(lambda c: c04.g_scenario(c, n_sched), 3072), body, max_examples=nex)

    return fn






# ------------------------------------------------------------------------------------------
# direct drive of WorkQueue + IncrementalPublisher with harness work graphs


def enumerate_graphs(max_groups, max_tasks, max_streams):
    """Small work graphs as JSON specs (preconditions P1-P3 hold by construction)."""
    parent_vectors = {0: [[]], 1: [[None]], 2: [[None, None], [None, 0]],
                      3: [[None, None, None], [None, 0, None], [None, None, 0], [None, 0, 0],
                          [None, None, 1], [None, 0, 1]]}
    outcomes = [(o, g) for o in ("ok", "fail", "nested-group", "nested-stream") for g in (False, True)]
    stream_kinds = [{"batches": b, "end": e} for b in ([], [1], [2], [1, 1]) for e in ("stop", "fail", "known-stop")]
    for ng in range(0, max_groups + 1):
        for parents in parent_vectors[ng]:
            anc = []
            for i, p in enumerate(parents):
                anc.append(set() if p is None else anc[p] | {p})
            antichains = [c for r in range(1, ng + 1) for c in itertools.combinations(range(ng), r)
                          if not any(a in anc[b] or b in anc[a] for a in c for b in c if a != b)]
            for nt in range(0, max_tasks + 1):
                if nt and not antichains:
                    continue
                for task_groups in itertools.product(antichains, repeat=nt):
                    for task_out in itertools.product(outcomes, repeat=nt):
                        for ns in range(0, max_streams + 1):
                            if nt + ns == 0:
                                continue  # P1
                            for streams in itertools.product(stream_kinds, repeat=ns):
                                spec = {"parents": parents,
                                        "tasks": [{"groups": list(g), "outcome": o, "gated": gt}
                                                  for g, (o, gt) in zip(task_groups, task_out)],
                                        "streams": list(streams)}
                                yield spec
                                if ns == 0 and any(len(g) >= 2 for g in task_groups):
                                    # an execution group shared by fragments at different path depths: the
                                    # publisher then has to choose the id and sub-path of the delivery
                                    for depths in itertools.product((0, 1), repeat=ng):
                                        if any(depths) and all(p is None or depths[p] <= depths[i]
                                                               for i, p in enumerate(parents)):
                                            yield dict(spec, depths=list(depths))


def enumerate_chain_graphs():
    """Four groups: a chain G0 > G1 > G2 and a separate root G3.  A task shared by the deepest fragment and the
    root G3 runs (and may fail) while G0 and G1 are not released yet: the publisher must keep the failure
    until an *announced* ancestor completes (two levels up)."""
    parents = [None, 0, 1, None]
    opts = [(o, g) for o in ("ok", "fail") for g in (False, True)]
    for ga in ((2, 3), (1, 3), (2,), (3,)):
        for oa in opts:
            for gb in ((0,), (1,), (0, 3)):
                for ob in opts:
                    for extra in (None, (1,), (2,)):
                        tasks = [{"groups": list(ga), "outcome": oa[0], "gated": oa[1]},
                                 {"groups": list(gb), "outcome": ob[0], "gated": ob[1]}]
                        if extra:
                            tasks.append({"groups": list(extra), "outcome": "ok", "gated": True})
                        yield {"parents": parents, "tasks": tasks, "streams": []}


def run_graph(spec, schedule):
    """Build the work for spec, drive publisher + work queue under the schedule, monitor payloads."""
    from graphql.execution.incremental.computation import Computation
    from graphql.execution.incremental.incremental_executor import (DeliveryGroup, ExecutionGroup,
                                                                     ExecutionGroupValue, ItemStream,
                                                                     StreamItemValue)
    from graphql.execution.incremental.incremental_publisher import IncrementalPublisher
    from graphql.execution.incremental.work_queue import Work, WorkResult
    from graphql.pyutils import Path

    from vkit.harness.incremental import Assembler
    from vkit.harness.sched import Sched

    sched = Sched(schedule, max_steps=400)
    depths = spec.get("depths") or [0] * len(spec["parents"])

    def path_of(depth):
        path = None
        for _ in range(depth):
            path = Path(path, "k", None)
        return path

    groups = []
    for i, p in enumerate(spec["parents"]):
        groups.append(DeliveryGroup(path_of(depths[i]), f"G{i}", groups[p] if p is not None else None))
    starts = {}
    data = {"k": {"k": {}}} if any(depths) else {}

    class HQueue:
        def __init__(self, name, kind):
            self.name, self.kind = name, kind
            self.stopped = False

        async def batches(self):
            n = 0
            for bi, size in enumerate(self.kind["batches"]):
                await sched.gate(f"{self.name}:b{bi}")
                if bi == len(self.kind["batches"]) - 1 and self.kind["end"] == "known-stop":
                    self.stopped = True
                yield [WorkResult(StreamItemValue(n + k), None) for k in range(size)]
                n += size
            await sched.gate(f"{self.name}:end")
            if self.kind["end"] == "fail":
                raise RuntimeError(f"{self.name} failed")
            self.stopped = True

        def is_stopped(self):
            return self.stopped

        def abort(self, reason=None):
            return None

    def mk_stream(name, kind):
        data.setdefault(name, [])
        return ItemStream(Path(None, name, None), "S" + name, HQueue(name, kind), 0)

    def mk_task(name, tgroups, outcome, gated):
        def result():
            if outcome == "fail":
                raise RuntimeError(f"{name} failed")
            work = None
            if outcome == "nested-group":
                child = DeliveryGroup(tgroups[0].path, f"N{name}", tgroups[0])
                sub = mk_task(name + "c", [child], "ok", False)
                work = Work([child], [sub], [])
            elif outcome == "nested-stream":
                work = Work([], [], [mk_stream("n" + name, {"batches": [1], "end": "stop"})])
            # the fields of a shared execution group live at the deepest of its fragments' paths
            vpath = max((g.path.as_list() if g.path else [] for g in tgroups), key=len)
            return WorkResult(ExecutionGroupValue(tgroups, vpath, {"v" + name: 1}), work)

        def fn():
            starts[name] = starts.get(name, 0) + 1
            if not gated:
                return result()

            async def later():
                await sched.gate("t" + name)
                return result()

            return later()

        return ExecutionGroup(tgroups, Computation(fn), None)

    for i, t in enumerate(spec["tasks"]):
        if t["outcome"] == "nested-stream":
            data["n" + str(i)] = []  # the list a nested stream appends to exists in the initial data
    tasks = [mk_task(str(i), [groups[g] for g in t["groups"]], t["outcome"], t["gated"])
             for i, t in enumerate(spec["tasks"])]
    streams = [mk_stream(f"s{i}", k) for i, k in enumerate(spec["streams"])]

    class Ctx:
        abort_signal = None

        def abort_error(self):
            return RuntimeError("aborted")

        async def cancel_incremental_work(self, reason=None):
            return None

        def run_async_work_finished_hook(self):
            return None

    nesting = {}
    for i, p in enumerate(spec["parents"]):
        a, q = set(), p
        while q is not None:
            a.add(f"G{q}")
            q = spec["parents"][q]
        nesting[f"G{i}"] = {lab: {("k",) * (depths[i] - depths[int(lab[1:])])} for lab in a}
    asm = Assembler(nesting)
    out = {"end": None}

    async def main():
        res = IncrementalPublisher().build_response(data, None, Work(groups, tasks, streams), Ctx())
        asm.initial(res.initial_result.formatted)
        async for p in res.subsequent_results:
            asm.subsequent(p.formatted)
        out["end"] = "stop"

    try:
        sched.run(main())
        asm.finish()
        # stream items arrive in list order without gaps or repeats (a failure is raised only after the
        # batches before it were delivered)
        for i, k in enumerate(spec["streams"]):
            want = list(range(sum(k["batches"])))
            got = asm.data.get(f"s{i}") if isinstance(asm.data, dict) else None
            if got != want:
                asm.problem("stream-items-order", f"stream s{i} assembled {got}, expected {want}")
        return asm, sched, starts, None
    except Exception as e:  # noqa: BLE001
        return asm, sched, starts, e
    finally:
        sched.drain()
        sched.close()


def eval_graph(spec, max_orders):
    """All completion orders (depth-first over the schedule tree, capped) of one work graph."""
    from vkit.harness.sched import Hang, next_schedule

    vs = []
    schedule = []
    n = 0
    traces = []
    exhausted = False
    while n < max_orders:
        asm, sched, starts, err = run_graph(spec, schedule)
        n += 1
        case = {"graph": spec, "schedule": list(sched.taken)}
        if type(err).__name__ == "StepLimit":
            pass  # inconclusive (max_steps=400 is far above what these graphs need)
        elif isinstance(err, Hang):
            vs.append(Violation(("C05", "work-queue-hang"), f"{err}; graph {spec}", case, {"rule": "hang"}))
        elif err is not None:
            vs.append(Violation(("C05", "work-queue-raises"), f"{type(err).__name__}: {err}; graph {spec}",
                                case, {"rule": "raises"}))
        else:
            for rule, detail in asm.problems:
                feats = {"rule": rule, "direct_drive": True}
                if rule == "completed-for-unknown-id":
                    feats["unannounced"] = "ever announced: False" in detail
                    feats["with_errors"] = "with errors: True" in detail
                vs.append(Violation(("C05", rule), f"{detail}; graph {spec} order {sched.trace}", case, feats))
            for name, k in starts.items():
                if k > 1:
                    vs.append(Violation(("C05", "computation-started-twice"), f"task {name} started {k}x; "
                                        f"graph {spec}", case, {"rule": "started-twice"}))
        traces.append((tuple(asm.shapes), len(asm.ever), bool(asm.completed_with_errors),
                       any(b >= 2 for b in asm.stream_batches)))
        schedule = next_schedule(sched.taken, sched.branching)
        if schedule is None:
            exhausted = True
            break
    return vs, n, traces, exhausted


def _work_queue(max_groups, max_tasks, max_streams, max_orders, stride):
    def fn(ctx, shard, nshards):
        total = 0
        all_exhausted = True
        graphs = enumerate_chain_graphs() if max_groups == "chain" else enumerate_graphs(max_groups, max_tasks,
                                                                                         max_streams)
        for i, spec in enumerate(graphs):
            if (i // stride) % nshards != shard or i % stride:
                continue
            if ctx.out_of_time():
                all_exhausted = False
                ctx.notes[f"stopped_by_budget_at_graph_shard{shard}"] = i
                break
            vs, n, traces, exhausted = eval_graph(spec, max_orders)
            total += 1
            all_exhausted = all_exhausted and exhausted
            ctx.cls("graph:every-order-enumerated" if exhausted else "graph:orders-capped")
            ctx.count(n)
            for shapes, ids, failed, big_batch in traces:
                shared = any(len(t["groups"]) >= 2 for t in spec["tasks"])
                nested = any(t["outcome"].startswith("nested") for t in spec["tasks"])
                if ids >= 2 and (failed or big_batch or shared or nested):
                    ctx.nontriv([list(s) for s in shapes], "direct-drive-trace")
            ctx.report(vs)
        ctx.notes[f"graphs_shard{shard}"] = total
        ctx.notes[f"every_order_enumerated_shard{shard}"] = all_exhausted
        ctx.notes["bounds"] = {"groups": max_groups, "tasks": max_tasks, "streams": max_streams,
                               "orders_cap": max_orders, "stride": stride}

    return fn


def subchecks(tier):
    if tier == "quick":
        return [Sub("end_to_end", _end_to_end(350, 4), shards=8, weight=2),
                # every graph with <= 2 groups, <= 2 tasks, <= 1 stream x every completion order (depth-first
                # over the schedule tree, capped at 400 orders per graph; the class histogram in the evidence
                # says how many graphs were enumerated completely)
                Sub("work_queue", _work_queue(2, 2, 1, 400, 1), shards=6, weight=1),
                # a slice of the 3-group graphs (forests with a grandchild / two children), no streams
                Sub("work_queue_3g", _work_queue(3, 2, 0, 200, 4), shards=2, weight=1),
                # 576 graphs with a chain of three fragments and a separate root, every order
                Sub("work_queue_chain", _work_queue("chain", 3, 0, 600, 1), shards=1, weight=1),
                # the real StreamItemQueue alone: every fifth of the 39 936 specs with <= 3 items x completion
                # orders (cap 24): delivery in list order without gaps or repeats, completeness, is_stopped()
                Sub("stream_queue", sq_drive.subcheck("C05", 3, 24, 5), shards=3, weight=1)]
    return [Sub("end_to_end", _end_to_end(4000, 12), shards=16, weight=2),
            # all 139 376 graphs with <= 3 groups, <= 2 tasks, <= 1 stream (cap 400 orders per graph) and every
            # second of the 148 832 graphs with <= 2 groups, <= 2 tasks, <= 2 streams; both stop at the budget
            Sub("work_queue", _work_queue(3, 2, 1, 400, 1), shards=16, weight=2),
            Sub("work_queue_2s", _work_queue(2, 2, 2, 200, 2), shards=16, weight=1),
            Sub("work_queue_chain", _work_queue("chain", 3, 0, 5000, 1), shards=4, weight=1),
            Sub("stream_queue", sq_drive.subcheck("C05", 4, 120, 1), shards=16, weight=1)]


def replay(case):
    if "sq_spec" in case:
        return sq_drive.replay(case, "C05")
    if "graph" in case:
        asm, sched, starts, err = run_graph(case["graph"], case["schedule"])
        out = []
        if err is not None:
            out.append(Violation(("C05", "work-queue-raises" if not type(err).__name__ == "Hang"
                                  else "work-queue-hang"), repr(err), case))
        for rule, detail in asm.problems:
            feats = {"rule": rule, "direct_drive": True}
            if rule == "completed-for-unknown-id":
                feats["unannounced"] = "ever announced: False" in detail
                feats["with_errors"] = "with errors: True" in detail
            out.append(Violation(("C05", rule), detail, case, feats))
        return out
    _vs, _n, _status, _nt, monitor = c04.eval_scenario(case)
    out = []
    for asm, c, text, schedule, early, o in monitor:
        out += monitor_violations(asm, c, text, schedule, early, o)
    return out
