"""C05 - the incremental payload stream obeys the delivery protocol.

Sub-checks
  end_to_end   every run of C04's domain with the protocol monitor (vkit/harness/incremental.py):
               ids announced exactly once before any data and never reused; every incremental entry
               targets a currently pending id and an existing object (defer) or list (stream) in the
               data assembled so far; every announced id completed exactly once, nothing for it after;
               a nested fragment is never announced while an announced enclosing fragment with a
               prefix path is pending; stream items extend the list in order (final list equals the
               reference when the stream completes without errors); hasNext is true on every payload
               except the last, nothing follows the last; the stream terminates (no hang)
  work_queue   direct drive of WorkQueue with harness groups / tasks / streams: bounded-exhaustive
               enumeration of small work graphs x every completion order (see _work_queue)
"""

from __future__ import annotations

import itertools

from checks import c02, c04
from vkit.core import Sub, Violation, given_run
from vkit.gen.choice import from_bytes
from vkit.ref import execute as R5

ID = "C05"
RULE = (
    "end_to_end: C04's generated requests x schedules x early execution with the protocol monitor on "
    "every payload; work_queue: all work graphs with <= 3 groups in every forest shape, <= 3 tasks per "
    "initial work in every non-empty antichain of groups, task outcome in {value, value + nested work, "
    "failure}, <= 2 streams with 0-2 items ending in {stop, failure}, x every order of completion events. "
    "Non-trivial: a trace with >= 2 ids and >= 1 of {failure, nested announcement, stream batch of >= 2, "
    "task shared by 2 groups}. Distinct by canonical payload-shape trace."
)
ASSUMPTIONS = [
    "direct drive respects the caller preconditions of IncrementalExecutor: the initial work has >= 1 task or stream, "
    "a task's groups are pairwise unrelated by ancestry, groups are defined in the same or an enclosing work",
    "at WorkQueue level a GroupFailureEvent for a never released group is allowed (a repository unit test asserts it); "
    "'completed only for announced ids' is enforced on publisher payloads",
]


def monitor_violations(asm, case, text, schedule, early, out, ref_lists_ok=None):
    vs = []
    for rule, detail in asm.problems:
        feats = {"rule": rule, "ever_announced": "ever announced: True" in detail}
        if rule == "defer-target-not-object":
            # does the target object exist once the whole stream has been applied?
            import re

            mm = re.search(r"path (\[.*?\]): missing", detail)
            feats["missing"] = bool(mm)
            if mm:
                import ast

                feats["exists_at_end"] = isinstance(asm._walk(ast.literal_eval(mm.group(1))), dict)
        if rule == "completed-for-unknown-id":
            feats["unannounced"] = "ever announced: False" in detail
            feats["with_errors"] = "with errors: True" in detail
        vs.append(Violation(("C05", rule), f"{detail}; query {text!r} schedule {schedule} early {early}",
                            case, feats))
    if out.get("unhandled"):
        vs.append(Violation(("C05", "unhandled-loop-exception"), f"{out['unhandled'][:2]}; {text!r}", case))
    return vs


def _end_to_end(nex, n_sched):
    def fn(ctx, shard, nshards):
        def body(sc):
            _vs, n, status, nt, monitor = c04.eval_scenario(sc)
            ctx.count(n)
            ctx.cls("status:" + status)
            allvs = []
            for asm, case, text, schedule, early, out in monitor:
                allvs += monitor_violations(asm, case, text, schedule, early, out)
                ids = len(asm.ever)
                interesting = (asm.completed_with_errors or any(b >= 2 for b in asm.stream_batches)
                               or len(asm.announced) > len([1 for s in asm.shapes[:1] for _ in range(s[1])]))
                if ids >= 2 and interesting:
                    ctx.nontriv([list(s) for s in asm.shapes], "trace")
                ctx.cls(f"payloads:{min(asm.payloads, 6)}")
            ctx.check(allvs)

        given_run(ctx, from_bytes(lambda c: c04.g_scenario(c, n_sched), 3072), body, max_examples=nex)

    return fn


def subchecks(tier):
    if tier == "quick":
        return [Sub("end_to_end", _end_to_end(350, 4), shards=14)]
    return [Sub("end_to_end", _end_to_end(4000, 12), shards=16)]


def replay(case):
    _vs, _n, _status, _nt, monitor = c04.eval_scenario(case)
    out = []
    for asm, c, text, schedule, early, o in monitor:
        out += monitor_violations(asm, c, text, schedule, early, o)
    return out
