"""C20 - schema validation reports every type-system violation and never crashes.

Oracle: R7 (vkit/ref/schema_rules.py), an independent checker of the specification's type-system
rules over schema models, with defaults checked by R4.
Sub-checks
  models     valid models (SDL and programmatic) and their single/double rule-violating mutants
             (vkit/gen/g2x.py, 35 mutation kinds): validate_schema returns a list, never raises;
             empty <=> R7 accepts; each violated rule of a mutant is reported; cached second call
             identical; a request returns exactly those errors with data null; assert_valid_schema
             raises TypeError <=> list non-empty
  random_sdl grammar-random type-system documents built with and without SDL pre-validation:
             validation and a request against the schema never raise
"""

from __future__ import annotations

from vkit.core import Sub, Violation, given_run
from vkit.gen import g1, g2, g2x
from vkit.gen.choice import from_bytes
from vkit.ref import schema_rules

ID = "C20"
RULE = (
    "models: generated valid schema models and their single and double mutants from a catalogue of "
    "35 rule-violating edits, realised from SDL (assume_valid_sdl) or programmatically; random_sdl: "
    "grammar-random type-system documents. Non-trivial: a mutant (>= 1 violated rule) or a valid model "
    "with >= 1 interface chain and >= 1 input default. Distinct by hash of (model, mode)."
)
ASSUMPTIONS = [
    "a TypeError/GraphQLError while *constructing* a schema means it cannot be constructed and is outside the quantifier (counted)",
    "R7 is my reading of the specification's type-system rules (vkit/ref/schema_rules.py)",
]


def construct(m, mode):
    from graphql import build_schema

    if mode == "sdl":
        return build_schema(g2.to_sdl(m), assume_valid_sdl=True)
    return g2.build(m)


def sdl_expressible(m):
    # SDL cannot say "directive without locations"; `schema {}` is not syntax either
    if any(not d["locations"] for d in m["directives"]):
        return False
    return not (m.get("force_schema_block") and not any(m[op] for op in ("query", "mutation", "subscription")))


def eval_schema(m, mode, tags):
    """tags: list of (tag, element) planted by mutations (empty for a valid model)."""
    from graphql import graphql_sync, validate_schema
    from graphql.type import assert_valid_schema

    case = {"model": dict(m), "mode": mode, "tags": [list(t) for t in tags]}
    vs = []
    cls = "+".join(sorted({t for t, _e in tags})) or "valid"

    def bad(rel, detail):
        vs.append(Violation(("C20", rel, cls), detail, case, {"relation": rel, "class": cls}))

    try:
        s = construct(m, mode)
    except Exception as e:  # noqa: BLE001  -- cannot be constructed: outside the quantifier
        return vs, "unconstructible:" + type(e).__name__
    try:
        errs = validate_schema(s)
    except Exception as e:  # noqa: BLE001
        bad("validate-raises", f"validate_schema raised {type(e).__name__}: {e}")
        return vs, "raised"
    if not isinstance(errs, list):
        bad("validate-returns-non-list", repr(errs))
        return vs, "raised"
    ref = schema_rules.violations(m)
    if bool(ref) != bool(errs):
        bad("verdict", f"R7 finds {ref[:3]} but validate_schema reports "
            f"{[e.message for e in errs[:3]]}")
    msgs = [e.message for e in errs]
    still = {(r, e) for r, e in ref}
    for tag, el in tags:
        if not any(r == tag and (e == el or str(e).startswith(str(el) + "(")) for r, e in still):
            # a later mutation removed the element this one had planted, or the planted change is not a
            # defect after all (e.g. an "invalid" default for a list of a custom scalar, which accepts anything)
            continue
        frag = g2x.EXPECT[tag]
        if not any(frag in msg for msg in msgs):
            bad("rule-not-reported", f"planted {tag} at {el}: no message contains {frag!r}; "
                f"got {msgs[:4]}")
    try:
        again = validate_schema(s)
        if [e.message for e in again] != msgs:
            bad("second-call-differs", f"{[e.message for e in again][:3]} vs {msgs[:3]}")
    except Exception as e:  # noqa: BLE001
        bad("validate-raises", f"second call raised {e!r}")
    calls = []
    try:
        r = graphql_sync(s, "{ __typename }", field_resolver=lambda *a, **k: calls.append(1))
        if errs:
            if r.data is not None or [e.message for e in (r.errors or [])] != msgs:
                bad("request-on-invalid-schema", f"data={r.data!r} errors="
                    f"{[e.message for e in (r.errors or [])][:3]} expected {msgs[:3]}")
            if calls:
                bad("request-executed-on-invalid-schema", "a resolver was invoked")
    except Exception as e:  # noqa: BLE001
        bad("request-raises", f"graphql_sync raised {type(e).__name__}: {e}")
    try:
        assert_valid_schema(s)
        raised = False
    except TypeError:
        raised = True
    except Exception as e:  # noqa: BLE001
        bad("assert-valid-raises-other", f"{e!r}")
        raised = bool(errs)
    if raised != bool(errs):
        bad("assert-valid-schema", f"raised={raised} but {len(errs)} errors")
    return vs, "ok"


def _models(nex):
    def fn(ctx, shard, nshards):
        def dec(c):
            m = dict(g2.g_model(c))
            tags = []
            nmut = c.choose([0, 1, 1, 1, 2])
            for _ in range(nmut):
                r = g2x.mutate(c, m)
                if r is not None:
                    m, tag, el = r
                    tags.append([tag, el])
            mode = c.choose(["sdl", "prog"])
            if mode == "sdl" and not sdl_expressible(m):
                mode = "prog"
            return {"model": m, "mode": mode, "tags": tags}

        def body(case):
            m = g2.as_model(case["model"])
            vs, status = eval_schema(m, case["mode"], [tuple(t) for t in case["tags"]])
            ctx.count()
            ctx.cls("status:" + status)
            for t, _e in case["tags"]:
                ctx.cls("mutation:" + t)
            if not case["tags"]:
                ctx.cls("valid-model")
            if status == "ok" and (case["tags"] or (
                    any(i["interfaces"] for i in m["interfaces"]) and "default" in str(case["model"]))):
                ctx.nontriv({"m": case["model"], "mode": case["mode"]})
                ctx.sample("+".join(t for t, _e in case["tags"]) or "valid", case)
            ctx.check(vs)

        given_run(ctx, from_bytes(dec, 1280), body, max_examples=nex)

    return fn


def eval_random_sdl(text, assume_valid):
    from graphql import build_schema, graphql_sync, validate_schema

    case = {"sdl": text, "assume_valid_sdl": assume_valid}
    vs = []
    try:
        s = build_schema(text, assume_valid_sdl=assume_valid)
    except Exception:  # noqa: BLE001  -- cannot be constructed
        return vs, False
    try:
        errs = validate_schema(s)
        if not isinstance(errs, list):
            raise TypeError("not a list")
    except Exception as e:  # noqa: BLE001
        vs.append(Violation(("C20", "validate-raises", "random-sdl"),
                            f"validate_schema raised {type(e).__name__}: {e} for {text!r}", case))
        return vs, True
    try:
        r = graphql_sync(s, "{ __typename }")
        if errs and r.data is not None:
            vs.append(Violation(("C20", "request-on-invalid-schema", "random-sdl"),
                                f"data={r.data!r} for {text!r}", case))
    except Exception as e:  # noqa: BLE001
        vs.append(Violation(("C20", "request-raises", "random-sdl"),
                            f"graphql_sync raised {type(e).__name__}: {e} for {text!r}", case))
    return vs, True


def _random_sdl(nex):
    def fn(ctx, shard, nshards):
        def dec(c):
            # names from a tiny pool so that references resolve often
            tree = g1.g_document(c, mode="sdl", max_defs=4)
            tree["dir_on_dir"] = False
            for d in tree["defs"]:
                if d["k"] == "directive":
                    d["dirs"] = []
            return {"text": g1.layout(g1.to_tokens(tree), []), "assume": bool(c.pick(2))}

        def body(case):
            vs, built = eval_random_sdl(case["text"], case["assume"])
            ctx.count()
            ctx.cls("built" if built else "unconstructible")
            if built:
                ctx.nontriv(case, "random-sdl")
            ctx.check(vs)

        given_run(ctx, from_bytes(dec, 768), body, max_examples=nex)

    return fn


def subchecks(tier):
    if tier == "quick":
        return [Sub("models", _models(2500), shards=11, weight=2),
                Sub("random_sdl", _random_sdl(6000), shards=3, weight=1)]
    return [Sub("models", _models(40000), shards=16, weight=2),
            Sub("random_sdl", _random_sdl(60000), shards=16, weight=1)]


def replay(case):
    if "sdl" in case:
        return eval_random_sdl(case["sdl"], case["assume_valid_sdl"])[0]
    return eval_schema(g2.as_model(case["model"]), case["mode"], [tuple(t) for t in case["tags"]])[0]
