"""C01 - the request pipeline is total: bad input becomes errors, never a crash.

Sub-checks
  parse_total   G1 documents: every prefix and point-edited variants, token soup, nesting ramps
                (depth <= 100), arbitrary code-point strings incl. lone surrogates -> the five parse
                entry points with option combinations: Node or GraphQLSyntaxError, nothing else
  pipeline      graphql_sync / graphql over fixed schemas x sources (G1 text, mutants, valid
                templates) x adversarial variable maps x operation names: result is an
                ExecutionResult whose .formatted satisfies the response-format validator
  resolver_exc  bounded-exhaustive: every concrete builtin Exception class + custom classes with
                odd attributes x 9 fault sites (nullable/non-null/list item/returned/async):
                located error at the fault's response path, null at the nearest nullable ancestor
  escapes       bounded-exhaustive: all sequences of <= 3 (thorough 4) escape atoms in a string
  atheris       (thorough) coverage-guided bytes -> text -> parse entry points, oracle in target
"""

from __future__ import annotations

import asyncio
import builtins
import json
import math
import sys

from vkit.core import Sub, Violation, given_run
from vkit.gen import g1
from vkit.gen.choice import from_bytes

ID = "C01"
RULE = (
    "parse_total: grammar-generated documents (all prefixes, <=3 point edits from the lexical "
    "alphabet incl. lone surrogates), token soup, bracket ramps to depth 100 and arbitrary unicode "
    "text into parse/parse_value/parse_const_value/parse_type/parse_schema_coordinate under all "
    "option combinations; pipeline: requests = (schema in 3 fixed schemas, source, variables from an "
    "adversarial Python value pool, operation name); resolver_exc: exhaustive product of exception "
    "instances x fault sites x {sync, async}. Non-trivial: source not blank and parses or fails at "
    "offset > 0; pipeline request reaches execution or produces >= 1 error; resolver fault observed. "
    "Distinct by hash of (entry point, source, variables repr, operation name, fault)."
)
ASSUMPTIONS = [
    "bracket nesting is bounded at 100 (the property's stated bound; deeper input may hit the interpreter recursion limit)",
    "exceptions whose own __str__ raises are not generated (no caller can format them)",
    "BaseException subclasses that are not Exception (KeyboardInterrupt, SystemExit, CancelledError) must propagate and are out of scope",
    "variable values are JSON-like: mapping keys are strings (values are arbitrary Python objects)",
    "a GraphQLError raised with its own path keeps that path (documented brand check in located_error); "
    "foreign exceptions carrying source/positions attributes are assumed to carry offsets into that source",
    "JSON-serialisability is required only for the built-in scalars' outputs; the custom scalar of the fixed schema serialises through str",
]

# ------------------------------------------------------------------------------------------
# parse entry points

LEX_ALPHA = ["{", "}", "(", ")", "[", "]", ":", "$", "@", "!", "=", "|", "&", "...", ".", '"', '"""',
             "\\", "\\u", "\\u{", "#", "\n", "\r", " ", ",", "a", "on", "query", "fragment", "type",
             "extend", "1", "-", "1.", "1e", "0x", "\ud800", "\udc00", "\U0001f600", "\U0001F600",
             "\x00", "\ufeff", "\u2028", "'", "\\\"", "null", "true", "directive", "schema"]


def max_depth(text: str) -> int:
    d = m = 0
    for ch in text:
        if ch in "{[(":
            d += 1
            m = max(m, d)
        elif ch in "}])":
            d = max(0, d - 1)
    return m


def eval_parse(text: str, opts: int = 0):
    """Five entry points on one text. Returns (violations, nontrivial)."""
    from graphql.error import GraphQLSyntaxError
    from graphql.language import (Node, parse, parse_const_value, parse_schema_coordinate,
                                  parse_type, parse_value)

    vs = []
    nontrivial = False
    case = {"text": text, "opts": opts}
    kw = dict(no_location=bool(opts & 1), experimental_fragment_arguments=bool(opts & 2),
              experimental_directives_on_directive_definitions=bool(opts & 4),
              max_tokens=[None, None, 0, 5][(opts >> 3) & 3])
    kw_coord = dict(no_location=kw["no_location"], max_tokens=kw["max_tokens"])
    for name, fn, k in (("parse", parse, kw), ("parse_value", parse_value, kw),
                        ("parse_const_value", parse_const_value, kw), ("parse_type", parse_type, kw),
                        ("parse_schema_coordinate", parse_schema_coordinate, kw_coord)):
        try:
            r = fn(text, **k)
            if not isinstance(r, Node):
                vs.append(Violation(("C01", "parse-returns-non-node", name),
                                    f"{name}({text!r}) returned {r!r}", case, {"entry": name}))
            nontrivial = nontrivial or bool(text.strip())
        except GraphQLSyntaxError as e:
            if e.positions and e.positions[0] > 0:
                nontrivial = True
            try:
                str(e)
                e.formatted  # noqa: B018
            except Exception as e2:  # noqa: BLE001
                vs.append(Violation(("C01", "syntax-error-unprintable", type(e2).__name__),
                                    f"{name}({text!r}): rendering the syntax error raised {e2!r}",
                                    case, {"entry": name}))
        except Exception as e:  # noqa: BLE001
            vs.append(Violation(("C01", "parse-raises", type(e).__name__),
                                f"{name}({text!r}, {k}) raised {type(e).__name__}: {e}", case,
                                {"entry": name, "exc": type(e).__name__}))
    return vs, nontrivial


def _mutate(text, c):
    """<= 3 point edits from the lexical alphabet."""
    t = text
    for _ in range(c.count(1, 3)):
        pos = c.pick(len(t) + 1) if len(t) < 65535 else 0
        op = c.pick(3)
        atom = c.choose(LEX_ALPHA)
        if op == 0:
            t = t[:pos] + atom + t[pos:]
        elif op == 1 and t:
            t = t[:pos] + t[pos + 1:]
        else:
            t = t[:pos] + atom + t[pos + 1:]
    return t


def _ramp(c):
    unit = c.choose(["[", "{", "{a", "(", "[[", "{a:", "$a:[", "{a(b:[", "...{", "{a{", "[{a:"])
    k = c.count(0, 100)
    per = sum(unit.count(b) for b in "{[(")
    k = min(k, 100 // max(1, per))
    head = c.choose(["", "{a(x:", "query($v:", "type T{f(a:[Int]=", "", "{f(a:"])
    if max_depth(head) + k * per > 100:
        head = ""
    closers = {"[": "]", "{": "}", "(": ")"}
    body = unit * k
    if c.chance(128):
        tail = "".join(closers[b] for b in reversed([ch for ch in head + body if ch in "{[("]))
        body += c.choose(["", "1", "a", "x:1"]) + tail
    return head + body


def _parse_total(nex):
    def fn(ctx, shard, nshards):
        from hypothesis import strategies as st

        # (1) documents: every prefix + point edits
        def dec(c):
            tree = g1.g_document(c)
            text = g1.layout(g1.to_tokens(tree), c.ints(10))
            muts = [_mutate(text, c) for _ in range(3)]
            return {"text": text, "mutants": muts, "opts": c.pick(32)}

        def body(case):
            text = case["text"]
            allvs = []
            n = 0
            step = 1 if len(text) <= 120 else 3
            for cut in range(0, len(text) + 1, step):
                vs, nt = eval_parse(text[:cut], case["opts"] if cut % 2 else 0)
                n += 5
                if nt:
                    ctx.nontriv("p:" + text[:cut])
                allvs += vs
            for m in case["mutants"]:
                if max_depth(m) > 100:
                    continue
                vs, nt = eval_parse(m, case["opts"])
                n += 5
                if nt:
                    ctx.nontriv("m:" + m, "mutant")
                allvs += vs
            ctx.count(n)
            ctx.cls("documents")
            ctx.sample("prefix-source", {"text": text})
            ctx.check(allvs)

        given_run(ctx, from_bytes(dec, 512), body, max_examples=nex, tag="docs")

        # (2) soup and ramps
        def dec2(c):
            if c.chance(100):
                return {"text": _ramp(c), "opts": c.pick(32), "kind": "ramp"}
            return {"text": "".join(c.choose(LEX_ALPHA) for _ in range(c.count(1, 12))),
                    "opts": c.pick(32), "kind": "soup"}

        def body2(case):
            if max_depth(case["text"]) > 100:
                return
            vs, nt = eval_parse(case["text"], case["opts"])
            ctx.count(5)
            ctx.cls(case["kind"])
            if nt:
                ctx.nontriv("s:" + case["text"], case["kind"])
            ctx.check(vs, case)

        given_run(ctx, from_bytes(dec2, 64), body2, max_examples=nex * 4, tag="soup")

        # (3) arbitrary unicode text incl. unpaired surrogates
        strat = st.text(st.characters(), max_size=30)

        def body3(text):
            if max_depth(text) > 100:
                return
            vs, nt = eval_parse(text, 0)
            ctx.count(5)
            ctx.cls("unicode")
            if nt:
                ctx.nontriv("u:" + text.encode("utf-8", "surrogatepass").hex(), "unicode")
            ctx.check(vs)

        given_run(ctx, strat, body3, max_examples=nex, tag="unicode")

    return fn


ESC_ATOMS = ["\\uD83D", "\\uDE00", "\\uFFFD", "\\uE000", "\\u0041", "\\u00", "\\u{1F600}",
             "\\u{D800}", "\\u{110000}", "\\u{", "\\u{}", "\\n", "\\x", "\\", "a", "\\uDBFF",
             "\\uDC00", "\\uDFFF", "\\uD800", "\\ud83d", "\\u{0000000041}", "\\u{00000041}",
             "\\\"", "\\\\", "\\u", "}", "\\uD7FF"]


def _escapes(depth):
    """Bounded-exhaustive: every sequence of <= depth escape atoms inside a quoted string."""
    import itertools

    def fn(ctx, shard, nshards):
        i = 0
        for n in range(0, depth + 1):
            for combo in itertools.product(ESC_ATOMS, repeat=n):
                i += 1
                if i % nshards != shard:
                    continue
                body = "".join(combo)
                for text in ('"' + body + '"', '{a(b:"' + body, '"' + body):
                    vs, nt = eval_parse(text, 0)
                    ctx.count(5)
                    if nt:
                        ctx.nontriv("e:" + text, "escapes" if n == 2 else None)
                    if vs:
                        ctx.report(vs)
        ctx.notes["atoms"] = len(ESC_ATOMS)
        ctx.notes["depth"] = depth

    return fn


# ------------------------------------------------------------------------------------------
# pipeline

_schemas = None


def schemas():
    global _schemas
    if _schemas is not None:
        return _schemas
    from graphql import (GraphQLArgument, GraphQLBoolean, GraphQLEnumType, GraphQLField,
                         GraphQLFloat, GraphQLID, GraphQLInputField, GraphQLInputObjectType,
                         GraphQLInt, GraphQLInterfaceType, GraphQLList, GraphQLNonNull,
                         GraphQLObjectType, GraphQLScalarType, GraphQLSchema, GraphQLString,
                         GraphQLUnionType, build_schema)

    any_scalar = GraphQLScalarType("Any", serialize=str)
    color = GraphQLEnumType("Color", {"RED": 0, "GREEN": 1, "BLUE": "b"})
    inp = GraphQLInputObjectType("In", lambda: {
        "a": GraphQLInputField(GraphQLInt, default_value=1),
        "b": GraphQLInputField(GraphQLNonNull(GraphQLString)),
        "c": GraphQLInputField(GraphQLList(inp)),
        "e": GraphQLInputField(color),
    })
    oneof = GraphQLInputObjectType("One", {"x": GraphQLInputField(GraphQLInt),
                                           "y": GraphQLInputField(GraphQLString)}, is_one_of=True)
    node = GraphQLInterfaceType("Node", {"id": GraphQLField(GraphQLID)},
                                resolve_type=lambda v, *_: v.get("__typename"))
    t = GraphQLObjectType("T", lambda: {
        "id": GraphQLField(GraphQLID),
        "name": GraphQLField(GraphQLString),
        "a": GraphQLField(t, resolve=lambda *_: {"__typename": "T", "id": "2", "name": "n"}),
        "x": GraphQLField(GraphQLInt, resolve=lambda *_: 7),
        "y": GraphQLField(GraphQLNonNull(GraphQLString), resolve=lambda *_: "y"),
        "b": GraphQLField(GraphQLInt, args={"x": GraphQLArgument(GraphQLInt),
                                             "y": GraphQLArgument(GraphQLString)},
                          resolve=lambda _s, _i, **kw: len(kw)),
    }, interfaces=[node])
    u = GraphQLObjectType("U", {"id": GraphQLField(GraphQLID), "c": GraphQLField(GraphQLInt)},
                          interfaces=[node])
    un = GraphQLUnionType("TU", [t, u], resolve_type=lambda v, *_: v.get("__typename"))
    root = {"__typename": "T", "id": "1", "name": "root"}
    query = GraphQLObjectType("Query", lambda: {
        "a": GraphQLField(t, resolve=lambda *_: root),
        "T": GraphQLField(t, resolve=lambda *_: root),
        "u": GraphQLField(u, resolve=lambda *_: {"__typename": "U", "id": "u", "c": 3}),
        "f": GraphQLField(GraphQLList(t), resolve=lambda *_: [root, None, root]),
        "node": GraphQLField(node, args={"id": GraphQLArgument(GraphQLNonNull(GraphQLID))},
                             resolve=lambda _s, _i, id: {"__typename": "U" if id == "u" else "T",  # noqa: A002
                                                         "id": id}),
        "any": GraphQLField(un, resolve=lambda *_: {"__typename": "U", "id": "x", "c": 1}),
        "id": GraphQLField(GraphQLID, resolve=lambda *_: 5),
        "name": GraphQLField(GraphQLString, resolve=lambda *_: "q"),
        "x": GraphQLField(GraphQLInt, args={"i": GraphQLArgument(GraphQLInt)},
                          resolve=lambda _s, _i, i=None: i),
        "fl": GraphQLField(GraphQLFloat, args={"v": GraphQLArgument(GraphQLFloat)},
                           resolve=lambda _s, _i, v=None: v),
        "b": GraphQLField(GraphQLInt, args={"x": GraphQLArgument(GraphQLInt, default_value=3)},
                          resolve=lambda _s, _i, x=None: x),
        "inp": GraphQLField(GraphQLString, args={"v": GraphQLArgument(inp),
                                                "o": GraphQLArgument(oneof),
                                                "l": GraphQLArgument(GraphQLList(GraphQLNonNull(GraphQLInt)))},
                            resolve=lambda _s, _i, **kw: repr(sorted(kw))),
        "color": GraphQLField(color, args={"c": GraphQLArgument(color)},
                              resolve=lambda _s, _i, c=None: c),
        "echo": GraphQLField(any_scalar, args={"v": GraphQLArgument(any_scalar)},
                             resolve=lambda _s, _i, v=None: v),
        "flag": GraphQLField(GraphQLBoolean, args={"v": GraphQLArgument(GraphQLBoolean)},
                             resolve=lambda _s, _i, v=None: v),
    })
    mutation = GraphQLObjectType("Mutation", {
        "set": GraphQLField(GraphQLInt, args={"v": GraphQLArgument(GraphQLInt)},
                            resolve=lambda _s, _i, v=None: v)})
    s1 = GraphQLSchema(query, mutation, types=[t, u, un, inp, oneof, color])
    s2 = build_schema("""
      type Query { a: T, b(x: Int = 2): Int, id: ID, name: String!, f: [T!]!, T: T, u: U }
      type T { a: T, x: Int, y: String, id: ID!, name: String, b(x: Int, y: String): Int }
      type U { id: ID, c: Int }
      enum E { A B }
      input I { e: E = A, l: [Int!]! = [1] }
      type Subscription { tick: Int }
    """)
    s3 = build_schema("type Query { x: Int } type Broken")  # an invalid schema
    # every root type, abstract types, a repeatable custom directive (@defer/@stream stay undefined: execute()
    # documents that it refuses schemas that define them, the rules about them run all the same)
    s4 = build_schema("""
      directive @tag(n: Int! = 1, s: [String!]) repeatable on FIELD | FRAGMENT_SPREAD | INLINE_FRAGMENT | QUERY
      interface Node { id: ID }
      type T implements Node { id: ID, name: String, a: T, f: [T], x: Int, y: String! }
      type U implements Node { id: ID, c: Int }
      union TU = T | U
      type Query { a: T, f: [T], any: TU, u: U, node(id: ID!): Node, id: ID, name: String, x(i: Int): Int, l: [Int] }
      type Mutation { set(v: Int): Int, a: T }
      type Subscription { tick: Int, a: T, f: [T] }
    """)
    _schemas = [s1, s2, s3, s4]
    return _schemas


TEMPLATES = [
    "{ a { id name a { x y } } }",
    "query Q($i: Int) { x(i: $i) b }",
    "query Q($i: Int!, $f: Float = 1.5) { x(i: $i) fl(v: $f) }",
    "query Q($v: In) { inp(v: $v) }",
    "query Q($o: One, $l: [Int!]) { inp(o: $o, l: $l) }",
    "query Q($c: Color) { color(c: $c) }",
    "query Q($v: Any) { echo(v: $v) }",
    "query A { id } query B { name }",
    "mutation M($v: Int) { set(v: $v) }",
    "{ node(id: \"u\") { id ... on U { c } ... on T { name } } any { __typename ... on U { c } } }",
    "{ f { id a { id } } }",
    "query Q($b: Boolean = true) { flag(v: $b) x @skip(if: $b) }",
    "{ __schema { types { name } } __type(name: \"T\") { fields { name } } }",
    "subscription S { tick }",
    "fragment F on T { id ...F } { a { ...F } }",
    "{ a { ...F ... on T { name } ... { id } } f { id } any { __typename } } fragment F on T { x f { id } }",
    "subscription S { a { id ... { name } } }",
    "subscription S { ... { tick } }",
    "subscription { ...F } fragment F on Subscription { tick }",
    "mutation M { a { ...F f { id } } set(v: 1) } fragment F on T { name }",
]

DIRECTIVE_NAMES = ["stream", "defer", "skip", "include", "stream", "defer", "tag", "deprecated", "specifiedBy",
                   "oneOf", "experimental_disableErrorPropagation", "nope"]
OWN_ARGS = {"stream": ["if", "label", "initialCount"], "defer": ["if", "label"], "skip": ["if"], "include": ["if"],
            "tag": ["n", "s"], "deprecated": ["reason"], "specifiedBy": ["url"]}
DIRECTIVE_ARG_NAMES = ["if", "label", "initialCount", "n", "s", "reason", "url", "zz"]
DIRECTIVE_ARG_VALUES = ["true", "false", '"x"', "1", "0", "-1", "1.5", "null", "$i", "$b", "$nope", "[true]",
                        '["a"]', "{a: 1}", "RED", '""', "2147483648"]


def _sprinkle(text, c):
    """Directives (known and unknown, with right and wrong arguments) after 1-3 names or spreads."""
    import re

    t = text
    for _ in range(c.count(1, 3)):
        spots = [m.end() for m in re.finditer(r"[A-Za-z_][A-Za-z_0-9]*|\.\.\.", t)]
        if not spots:
            break
        pos = c.choose(spots)
        name = c.choose(DIRECTIVE_NAMES)
        own = OWN_ARGS.get(name)
        args = ", ".join(f"{c.choose(own) if own and c.chance(215) else c.choose(DIRECTIVE_ARG_NAMES)}: "
                         f"{c.choose(DIRECTIVE_ARG_VALUES)}" for _ in range(c.count(0, 2)))
        d = " @" + name + (f"({args})" if args else "") + " "
        t = t[:pos] + d + t[pos:]
    return t



class _Weird:
    def __repr__(self):
        return "<weird>"


def value_pool():
    from graphql.pyutils import Undefined

    return [None, True, False, 0, 1, -1, 2**31 - 1, 2**31, -2**31 - 1, 2**53 + 1, 10**400, 10**5000,
            -10**5000, [10**5000], {"a": 10**5000}, 1.5, -0.0,
            float("nan"), float("inf"), "", "x", "1", "RED", "1e3", b"x", [], [1], [1, [2]], [None],
            {}, {"a": 1}, {"b": "s"}, {"a": {"b": [None]}}, {"b": "s", "c": [{"b": "t"}]}, {"x": 1},
            {"x": 1, "y": "s"}, {"x": None}, (1, 2), {1, 2}, _Weird(), Undefined, object, len,
            {"b": "s", "zz": 1}, [[1]], "\ud800", {"\ud800": 1}]


def g_variables(c, names):
    pool = value_pool()
    out = {}
    for _ in range(c.count(0, 4)):
        key = c.choose(names + ["i", "v", "f", "o", "l", "c", "b", "", "__x", "zz"])
        out[key] = c.choose(pool)
    return out


def validate_formatted(f, allow_custom_any=False):
    """Response-format validator written from the specification (section 7). Returns problems."""
    probs = []
    if not isinstance(f, dict):
        return [f"formatted is {type(f).__name__}, not a map"]
    extra = set(f) - {"data", "errors", "extensions"}
    if extra:
        probs.append(f"unexpected top-level keys {sorted(extra)}")
    if "errors" in f:
        errs = f["errors"]
        if not isinstance(errs, list) or not errs:
            probs.append("errors present but not a non-empty list")
            errs = []
        for e in errs:
            if not isinstance(e, dict) or not isinstance(e.get("message"), str):
                probs.append(f"error without string message: {e!r}")
                continue
            if set(e) - {"message", "locations", "path", "extensions"}:
                probs.append(f"error with unexpected keys {sorted(e)}")
            if "locations" in e:
                locs = e["locations"]
                if not (isinstance(locs, list) and locs and all(
                        isinstance(l, dict) and set(l) == {"line", "column"}
                        and isinstance(l["line"], int) and isinstance(l["column"], int)
                        and l["line"] >= 1 and l["column"] >= 1 for l in locs)):
                    probs.append(f"bad locations {locs!r}")
            if "path" in e:
                p = e["path"]
                if not (isinstance(p, list) and all(
                        (isinstance(x, str) or (isinstance(x, int) and not isinstance(x, bool)))
                        for x in p)):
                    probs.append(f"bad path {p!r}")
            if "extensions" in e and not isinstance(e["extensions"], dict):
                probs.append(f"error extensions is not a map: {e['extensions']!r}")
    if "data" not in f and "errors" not in f:
        probs.append("neither data nor errors")
    if "data" in f and f["data"] is None and "errors" not in f:
        probs.append("data is null without errors")
    if "data" in f and f["data"] is not None and not isinstance(f["data"], dict):
        probs.append("data is neither null nor a map")
    if "extensions" in f and not isinstance(f["extensions"], dict):
        probs.append("extensions is not a map")
    try:
        json.dumps({k: v for k, v in f.items() if k != "extensions"}, allow_nan=False)
    except (TypeError, ValueError) as e:
        probs.append(f"not JSON-serialisable: {e}")
    return probs


def _vrepr(v):
    """repr that survives integers beyond the interpreter's decimal conversion limit (written in hex, which
    ast.literal_eval reads back exactly)."""
    if isinstance(v, int) and not isinstance(v, bool) and abs(v) >= 10**1000:
        return hex(v)
    if type(v) is dict:
        return "{" + ", ".join(f"{_vrepr(k)}: {_vrepr(x)}" for k, x in v.items()) + "}"
    if type(v) is list:
        return "[" + ", ".join(_vrepr(x) for x in v) + "]"
    if type(v) is tuple:
        return "(" + ", ".join(_vrepr(x) for x in v) + ("," if len(v) == 1 else "") + ")"
    return repr(v)


def eval_request(si, source, variables, opname, use_async):
    from graphql import ExecutionResult, graphql, graphql_sync

    schema = schemas()[si]
    case = {"schema": si, "source": source, "variables": _vrepr(variables), "operation_name": opname,
            "async": use_async}
    vs = []
    try:
        if use_async:
            loop = asyncio.new_event_loop()
            try:
                r = loop.run_until_complete(graphql(schema, source, variable_values=variables,
                                                    operation_name=opname))
            finally:
                loop.close()
        else:
            r = graphql_sync(schema, source, variable_values=variables, operation_name=opname)
    except Exception as e:  # noqa: BLE001
        vs.append(Violation(("C01", "request-raises", type(e).__name__),
                            f"{type(e).__name__}: {e} for {source!r} vars={_vrepr(variables)[:300]} op={opname!r}",
                            case, {"exc": type(e).__name__}))
        return vs, True, case
    if not isinstance(r, ExecutionResult):
        vs.append(Violation(("C01", "request-returns-non-result", type(r).__name__), repr(r), case))
        return vs, True, case
    try:
        f = r.formatted
    except Exception as e:  # noqa: BLE001
        vs.append(Violation(("C01", "formatted-raises", type(e).__name__),
                            f"{e!r} for {source!r} vars={_vrepr(variables)[:300]}", case))
        return vs, True, case
    for p in validate_formatted(f):
        vs.append(Violation(("C01", "response-format", p.split(":")[0][:40]),
                            f"{p}; source {source!r} vars={_vrepr(variables)[:300]} op={opname!r} -> {str(f)[:300]}",
                            case))
    nontrivial = bool(r.errors) or r.data is not None
    return vs, nontrivial, case


def _pipeline(nex):
    def fn(ctx, shard, nshards):
        def dec(c):
            k = c.pick(5)
            if k == 0:
                tree = g1.g_document(c, mode="exec")
                source = g1.layout(g1.to_tokens(tree), c.ints(6))
            elif k == 1:
                source = _mutate(c.choose(TEMPLATES), c)
            elif k in (2, 4):
                source = _sprinkle(c.choose(TEMPLATES), c)
            else:
                source = c.choose(TEMPLATES)
            names = [w for w in "Q A B M S F i v f o l c b".split()]
            opname = c.choose([None, None, "Q", "A", "B", "M", "S", "", "nope", "\ud800", "F"])
            return {"schema": c.choose([0, 0, 0, 1, 1, 2, 3, 3, 3]), "source": source,
                    "vars": g_variables(c, names), "op": opname, "async": c.chance(40)}

        def body(case):
            vs, nt, jc = eval_request(case["schema"], case["source"], case["vars"], case["op"],
                                      case["async"])
            ctx.count()
            ctx.cls(f"schema{case['schema']}")
            if nt:
                ctx.nontriv(jc, f"request-schema{case['schema']}")
            ctx.check(vs, jc)

        # variable pools hold non-JSON values; the JSON-able case is built in eval_request
        given_run(ctx, from_bytes(dec, 256), body, max_examples=nex)

    return fn


# ------------------------------------------------------------------------------------------
# resolver exceptions


def exception_pool():
    """(label, factory) for every concrete builtin Exception class and custom oddities."""
    from graphql import GraphQLError, Source
    from graphql.language import parse

    out = []
    for name in sorted(dir(builtins)):
        cls = getattr(builtins, name)
        if not (isinstance(cls, type) and issubclass(cls, Exception)):
            continue
        if issubclass(cls, Warning) and cls is not Warning and name.endswith("Warning"):
            pass
        if name in ("UnicodeDecodeError",):
            out.append((name, lambda cls=cls: cls("utf-8", b"\xff", 0, 1, "bad")))
        elif name == "UnicodeEncodeError":
            out.append((name, lambda cls=cls: cls("ascii", "\xe9", 0, 1, "bad")))
        elif name == "UnicodeTranslateError":
            out.append((name, lambda cls=cls: cls("\xe9", 0, 1, "bad")))
        elif name in ("ExceptionGroup", "BaseExceptionGroup"):
            if name == "ExceptionGroup":
                out.append((name, lambda cls=cls: cls("group", [ValueError("in group")])))
        else:
            out.append((name, lambda cls=cls: cls("boom")))
            out.append((name + "()", lambda cls=cls: cls()))

    def custom(label, **attrs):
        def make():
            cls = type("Custom_" + label, (Exception,), {})
            e = cls("custom " + label)
            for k, v in attrs.items():
                setattr(e, k, v() if callable(v) else v)
            return e
        out.append(("custom:" + label, make))

    custom("message-str", message="msg")
    custom("message-int", message=5)
    custom("message-none", message=None)
    custom("message-bytes", message=b"x")
    custom("path-list", path=["zz", 1])
    custom("path-str", path="abc")
    custom("path-int", path=3)
    custom("locations-junk", locations="here")
    custom("locations-list", locations=[(1, 2)])
    custom("extensions-dict", extensions={"code": "X"})
    custom("extensions-tuple", extensions=(".a", ".b"))
    custom("extensions-int", extensions=42)
    custom("extensions-set", extensions={"p"})
    custom("nodes-junk", nodes="nodes")
    custom("nodes-int", nodes=5)
    custom("nodes-empty", nodes=[])
    custom("nodes-real", nodes=lambda: [parse("{ zz }").definitions[0]])
    custom("positions-int", positions=5)
    custom("positions-list", positions=[0])
    custom("positions-str", positions="1")
    custom("positions-huge", positions=[10**6], source="{ a }")
    custom("source-str", source="{ a }")
    custom("source-int", source=5)
    custom("source-obj", source=lambda: Source("{ a }"), positions=[2])
    custom("original-error", original_error=ValueError("inner"))
    custom("args-empty")
    out.append(("graphql-error", lambda: GraphQLError("gql")))
    out.append(("graphql-error-path", lambda: GraphQLError("gql", path=["other", 0])))
    out.append(("graphql-error-ext", lambda: GraphQLError("gql", extensions={"k": 1})))
    out.append(("graphql-error-subclass",
                lambda: type("MyGQL", (GraphQLError,), {})("sub")))
    out.append(("exc-with-cause", lambda: _with_cause()))
    out.append(("str-subclass-msg", lambda: ValueError(type("S", (str,), {})("ss"))))
    out.append(("non-str-arg", lambda: ValueError({"a": object})))
    out.append(("unicode-msg", lambda: ValueError("\ud800 \u2028 \x00")))
    return out


def _with_cause():
    try:
        try:
            raise KeyError("inner")
        except KeyError as k:
            raise ValueError("outer") from k
    except ValueError as e:
        return e


SITES = {
    # site: (query, expected path, expected data builder)
    "nullable": ("{ ok x }", ["x"], {"ok": 1, "x": None}),
    "nonnull-root": ("{ ok nn }", ["nn"], None),
    "nonnull-child": ("{ ok a { x y } }", ["a", "y"], {"ok": 1, "a": None}),
    "nonnull-chain": ("{ ok na { y } }", ["na", "y"], None),
    "list-item-field": ("{ list { i x } }", ["list", 1, "x"],
                        {"list": [{"i": 0, "x": 7}, {"i": 1, "x": None}, {"i": 2, "x": 7}]}),
    "nonnull-list-item": ("{ ok nnlist { i y } }", ["nnlist", 1, "y"], {"ok": 1, "nnlist": None}),
    "list-value": ("{ items }", ["items", 1], {"items": [1, None, 3]}),
    "returned": ("{ ok r }", ["r"], {"ok": 1, "r": None}),
    "aliased-twice": ("{ p: x ok q: ok }", ["p"], {"p": None, "ok": 1, "q": 1}),
}


def fault_schema(make_exc, site, use_async):
    from graphql import (GraphQLField, GraphQLInt, GraphQLList, GraphQLNonNull, GraphQLObjectType,
                         GraphQLSchema)

    def boom(*_a, **_k):
        raise make_exc()

    async def aboom(*_a, **_k):
        await asyncio.sleep(0)
        raise make_exc()

    raiser = aboom if use_async else boom

    def item_x(src, _info):
        if src["i"] == 1 and site == "list-item-field":
            return raiser()
        return 7

    def item_y(src, _info):
        if (src["i"] == 1 and site == "nonnull-list-item") or site in ("nonnull-child",
                                                                        "nonnull-chain"):
            return raiser()
        return 8

    async def areturn(v):
        await asyncio.sleep(0)
        return v

    def items(*_a):
        v = [1, make_exc(), 3]
        return areturn(v) if use_async else v

    def returned(*_a):
        e = make_exc()
        return areturn(e) if use_async else e

    a = GraphQLObjectType("A", lambda: {
        "i": GraphQLField(GraphQLInt, resolve=lambda s, _i: s["i"]),
        "x": GraphQLField(GraphQLInt, resolve=item_x),
        "y": GraphQLField(GraphQLNonNull(GraphQLInt), resolve=item_y),
    })
    recs = [{"i": 0}, {"i": 1}, {"i": 2}]
    q = GraphQLObjectType("Query", {
        "ok": GraphQLField(GraphQLInt, resolve=lambda *_: 1),
        "x": GraphQLField(GraphQLInt, resolve=raiser),
        "nn": GraphQLField(GraphQLNonNull(GraphQLInt), resolve=raiser),
        "a": GraphQLField(a, resolve=lambda *_: {"i": 0}),
        "na": GraphQLField(GraphQLNonNull(a), resolve=lambda *_: {"i": 0}),
        "list": GraphQLField(GraphQLList(a), resolve=lambda *_: recs),
        "nnlist": GraphQLField(GraphQLList(GraphQLNonNull(a)), resolve=lambda *_: recs),
        "items": GraphQLField(GraphQLList(GraphQLInt), resolve=items),
        "r": GraphQLField(GraphQLInt, resolve=returned),
    })
    return GraphQLSchema(q)


def eval_fault(label, make_exc, site, use_async):
    from graphql import ExecutionResult, graphql, graphql_sync

    query, path, data = SITES[site]
    case = {"exception": label, "site": site, "async": use_async}
    vs = []

    def bad(rel, detail):
        vs.append(Violation(("C01", "resolver-" + rel, label.split(":")[0] if label.startswith("custom")
                             else "builtin-or-graphql"), f"[{label} @ {site} async={use_async}] {detail}",
                            case, {"exception": label, "site": site, "relation": rel}))

    schema = fault_schema(make_exc, site, use_async)
    try:
        if use_async:
            loop = asyncio.new_event_loop()
            try:
                r = loop.run_until_complete(graphql(schema, query))
            finally:
                loop.close()
        else:
            r = graphql_sync(schema, query)
    except Exception as e:  # noqa: BLE001
        bad("escapes", f"{type(e).__name__}: {e}")
        return vs
    if not isinstance(r, ExecutionResult):
        bad("non-result", repr(r))
        return vs
    try:
        f = r.formatted
        for e in r.errors or []:
            str(e)
    except Exception as e:  # noqa: BLE001
        bad("unprintable", f"{type(e).__name__}: {e}")
        return vs
    for p in validate_formatted(f):
        bad("format", p)
    errs = f.get("errors", [])
    if len(errs) != 1:
        bad("error-count", f"{len(errs)} errors: {errs!r}")
    elif errs[0].get("path") != path and label != "graphql-error-path":
        bad("error-path", f"path {errs[0].get('path')!r}, expected {path!r}")
    elif "locations" not in errs[0] and label != "graphql-error-path":
        bad("error-unlocated", f"no locations in {errs[0]!r}")
    if f.get("data", "absent") != data:
        bad("data", f"data {f.get('data', 'absent')!r}, expected {data!r}")
    return vs


def _resolver_exc():
    def fn(ctx, shard, nshards):
        pool = exception_pool()
        combos = [(lab, mk, site, a) for (lab, mk) in pool for site in SITES for a in (False, True)]
        for lab, mk, site, a in combos[shard::nshards]:
            try:
                str(mk())
            except Exception:  # noqa: BLE001
                ctx.cls("skipped-unformattable")
                continue
            vs = eval_fault(lab, mk, site, a)
            ctx.count()
            ctx.cls("async" if a else "sync")
            ctx.nontriv({"e": lab, "s": site, "a": a}, site if a else None)
            if vs:
                ctx.report(vs)
        ctx.notes["exceptions"] = len(pool)
        ctx.notes["sites"] = len(SITES)

    return fn


def _atheris(seconds):
    """Coverage-guided tier: one libFuzzer process per shard on fuzz/c01_target.py (oracle inside the target).
    Even shards fuzz the five parse entry points, odd shards the whole request pipeline; every other pair
    starts from an empty corpus, the others from a few valid documents of the repository's fixtures."""
    def fn(ctx, shard, nshards):
        import glob
        import os
        import shutil
        import subprocess
        import tempfile

        from vkit.core import HERE, derive_seed

        try:
            import atheris  # noqa: F401
        except Exception:  # noqa: BLE001
            ctx.notes["atheris"] = "not installed (MANIFEST.setup_cmd installs it); sub-check skipped"
            return
        mode = "parse" if shard % 2 == 0 else "request"
        seeded = (shard // 2) % 2 == 1
        work = tempfile.mkdtemp(prefix="vkit-fuzz-", dir="/var/tmp")
        try:
            corpus = os.path.join(work, "corpus")
            crashes = os.path.join(work, "crash")
            os.makedirs(corpus)
            os.makedirs(crashes)
            if seeded:
                srcs = ["{a}", "query Q($v:Int=1){a(x:$v)@skip(if:true)...F}fragment F on T{b}", "mutation{m}",
                        'type T implements I&J @d(a:[1,"x",{k:null}]){f(a:Int=1):[T!]!}', '"""d"""scalar S',
                        "extend schema @a{query:Q}", "directive @d(a:Int) repeatable on FIELD|QUERY"]
                for name in ("kitchen_sink.graphql", "schema_kitchen_sink.graphql"):
                    try:
                        txt = open(os.path.join("/repo/tests/fixtures", name), encoding="utf-8").read()
                        srcs += [txt[i:i + 240] for i in range(0, min(len(txt), 2400), 240)]
                    except OSError:
                        pass
                for i, t in enumerate(srcs):
                    with open(os.path.join(corpus, f"seed{i}"), "wb") as f:
                        f.write(bytes([i % 32]) + t.encode("utf-8"))
            stats = os.path.join(work, "stats.json")
            seed = derive_seed(ctx.seed, "atheris", shard) % (2 ** 31 - 2) + 1
            env = dict(os.environ, PYTHONPATH=os.environ.get("PYTHONPATH", ""))
            cmd = [sys.executable, os.path.join(HERE, "fuzz", "c01_target.py"), stats, mode,
                   f"-max_total_time={seconds}", f"-seed={seed}", "-max_len=300", "-timeout=20",
                   f"-artifact_prefix={crashes}/", "-rss_limit_mb=4096", corpus]
            try:
                p = subprocess.run(cmd, capture_output=True, text=True, env=env, timeout=seconds + 120)
                tail = (p.stderr or "")[-1500:]
            except subprocess.TimeoutExpired:
                tail = "timeout"
            try:
                st = json.load(open(stats))
            except Exception:  # noqa: BLE001
                st = {"execs": 0, "nontrivial": 0}
            ctx.count(st.get("execs", 0))
            ctx.cls(f"atheris:{mode}:{'seeded' if seeded else 'empty'}-corpus")
            ctx.notes[f"atheris_shard{shard}"] = {"mode": mode, "seeded_corpus": seeded, "execs": st.get("execs", 0),
                                                  "nontrivial": st.get("nontrivial", 0),
                                                  "corpus_files": len(os.listdir(corpus))}
            # the corpus libFuzzer keeps = inputs that reached new coverage: they are the non-trivial samples
            for path in sorted(glob.glob(os.path.join(corpus, "*")))[:4000]:
                data = open(path, "rb").read()
                if len(data) > 1:
                    ctx.nontriv(data.hex(), f"atheris:{mode}")
            vs = []
            for path in sorted(glob.glob(os.path.join(crashes, "*"))):
                data = open(path, "rb").read()
                opts, text = (data[0] & 31, data[1:].decode("utf-8", "replace")) if data else (0, "")
                if mode == "parse":
                    got = eval_parse(text, opts)[0]
                else:
                    got = eval_request(opts % len(schemas()), text, {}, None, False)[0]
                if got:
                    vs += got
                elif os.path.basename(path).startswith(("timeout", "oom")):
                    ctx.notes.setdefault("atheris_slow_inputs", []).append(repr(text[:80]))
                else:
                    ctx.notes.setdefault("atheris_unreproduced", []).append({"file": os.path.basename(path),
                                                                             "stderr": tail[-300:]})
            ctx.report(vs)
        finally:
            shutil.rmtree(work, ignore_errors=True)

    return fn


def subchecks(tier):
    if tier == "quick":
        return [Sub("parse_total", _parse_total(500), shards=8, weight=3),
                Sub("pipeline", _pipeline(3000), shards=5, weight=2),
                Sub("resolver_exc", _resolver_exc(), shards=2, weight=1, exhaustive=True),
                Sub("escapes", _escapes(3), shards=2, weight=1, exhaustive=True)]
    return [Sub("parse_total", _parse_total(6000), shards=16, weight=3),
            Sub("pipeline", _pipeline(40000), shards=16, weight=2),
            Sub("resolver_exc", _resolver_exc(), shards=8, weight=1, exhaustive=True),
            Sub("escapes", _escapes(4), shards=16, weight=2, exhaustive=True),
            Sub("atheris", _atheris(300), shards=12, weight=1)]


def replay(case):
    if "text" in case:
        return eval_parse(case["text"], case.get("opts", 0))[0]
    if "exception" in case:
        pool = dict(exception_pool())
        return eval_fault(case["exception"], pool[case["exception"]], case["site"], case["async"])
    if "source" in case and "vars_index" not in case:
        # variables are stored as repr for display; replay re-evaluates with the literal pool value
        import ast

        try:
            variables = ast.literal_eval(case["variables"])
        except Exception:  # noqa: BLE001
            variables = {}
        return eval_request(case["schema"], case["source"], variables, case["operation_name"],
                            case.get("async", False))[0]
    return []
