"""C15 - input coercion and input validation agree on values, literals and variables.

For generated input types (G2 models built programmatically) x values (conforming, near-miss,
adversarial Python objects) and literals (type-directed, perturbed, grammar-random; constant and
variable-bearing):
  (1) coerce_input_value is Undefined  <=> validate_input_value reports an error; same for
      coerce_input_literal / validate_input_literal; get_argument_values never ends in the internal
      "Invalid argument" fallback and never raises anything but GraphQLError
  (2) a result conforms to the type (R4.conforms) and equals the specification's coercion (R4)
  (3) value_to_literal of an accepted value coerces back to the same result
  (4) ValuesOfCorrectTypeRule accepts `{ f(arg: <const literal>) }` <=> the literal coerces
  (5) get_variable_values returns errors, or a value for every provided or defaulted variable,
      each conforming
"""

from __future__ import annotations

import math

from vkit.core import Sub, Violation, given_run
from vkit.gen import g1, g2, g5
from vkit.gen.choice import from_bytes
from vkit.ref import coerce as R4

ID = "C15"
RULE = (
    "per generated schema model: 4 input types (list/non-null nesting over built-in scalars, enums, "
    "custom scalars, input objects with defaults, recursive and OneOf input objects) x ~10 values "
    "(conforming by construction, one-position near misses, adversarial Python objects) and ~8 literals "
    "(from conforming values, perturbed, grammar-random; with variables bound/unbound/null) plus one "
    "variable-definition list. Non-trivial: the value or literal nests >= 2 levels or is in a boundary "
    "class (bool-as-int, +-2^31, non-finite, unknown key, OneOf arity, Undefined). Distinct by hash of "
    "(type, value repr / literal)."
)
ASSUMPTIONS = [
    "mapping keys of values are strings (values come from JSON); custom scalars are probed with JSON-like values only for the literal round trip",
    "one-shot iterators are not used as values (coercion and validation would each consume them)",
    "a top-level unbound variable in a nullable position means 'absent'; it is compared through get_argument_values, not raw",
    "R4 (vkit/ref/coerce.py) is my reading of the specification's input coercion; compared only on JSON-like values and constant literals",
]


def eq(a, b):
    if isinstance(a, float) and isinstance(b, float) and math.isnan(a) and math.isnan(b):
        return True
    if isinstance(a, dict) and isinstance(b, dict):
        return a.keys() == b.keys() and all(eq(a[k], b[k]) for k in a)
    if isinstance(a, (list, tuple)) and isinstance(b, (list, tuple)):
        return len(a) == len(b) and all(eq(x, y) for x, y in zip(a, b))
    if isinstance(a, bool) != isinstance(b, bool):
        return False
    try:
        return bool(a == b)
    except Exception:  # noqa: BLE001
        return a is b


def jsonlike(v, depth=0):
    if type(v) is float:
        return math.isfinite(v)
    if v is None or type(v) in (bool, int, str):
        return True
    if type(v) is list:
        return all(jsonlike(x, depth + 1) for x in v)
    if type(v) is dict:
        return all(type(k) is str and jsonlike(x, depth + 1) for k, x in v.items())
    return False


def depth_of(v):
    if isinstance(v, dict):
        return 1 + max([depth_of(x) for x in v.values()] + [0])
    if isinstance(v, (list, tuple)):
        return 1 + max([depth_of(x) for x in v] + [0])
    return 0


def boundary(v):
    from graphql.pyutils import Undefined

    if v is Undefined or isinstance(v, bool):
        return True
    if isinstance(v, int) and abs(v) >= 2**31 - 1:
        return True
    if isinstance(v, float) and not math.isfinite(v):
        return True
    return isinstance(v, dict) and ("__unknown" in v or "zz" in v)


class Env:
    """Built schema and helpers for one model."""

    def __init__(self, m, out_names=False):
        from graphql import (GraphQLBoolean, GraphQLFloat, GraphQLID, GraphQLInt, GraphQLList,
                             GraphQLNonNull, GraphQLString)

        self.m = g2.as_model(m)
        # out_names: every input field is handed to Python code under another name (py_<name>); the results
        # are translated back (g2.unpy) before they are compared with the reference
        self.schema = g2.build(self.m, input_out_names=out_names)
        builtin = {"Int": GraphQLInt, "Float": GraphQLFloat, "String": GraphQLString,
                   "Boolean": GraphQLBoolean, "ID": GraphQLID}

        def tf(t):
            if isinstance(t, str):
                return builtin.get(t) or self.schema.type_map[t]
            return GraphQLNonNull(tf(t[1])) if t[0] == "nn" else GraphQLList(tf(t[1]))

        self._tf = tf
        self._cache = {}

    def T(self, t):
        k = g2.type_str(t)
        if k not in self._cache:
            self._cache[k] = self._tf(t)
        return self._cache[k]

    def arg_schema(self, t):
        from graphql import (GraphQLArgument, GraphQLField, GraphQLInt, GraphQLObjectType,
                             GraphQLSchema)

        k = "schema:" + g2.type_str(t)
        if k not in self._cache:
            f = GraphQLField(GraphQLInt, args={"arg": GraphQLArgument(self.T(t))})
            self._cache[k] = (GraphQLSchema(GraphQLObjectType("QArg", {"f": f})), f)
        return self._cache[k]


def eval_value(env, t, v, case):
    from graphql.pyutils import Undefined
    from graphql.utilities import coerce_input_literal, coerce_input_value, value_to_literal
    from graphql.utilities.validate_input_value import validate_input_value

    vs = []

    def bad(rel, detail):
        vs.append(Violation(("C15", rel), f"type {g2.type_str(t)} value {v!r}: {detail}", case,
                            {"relation": rel}))

    tobj = env.T(t)
    try:
        c = g2.unpy(coerce_input_value(v, tobj))
    except Exception as e:  # noqa: BLE001
        bad("coerce-value-raises", f"{type(e).__name__}: {e}")
        return vs
    errs = []
    try:
        validate_input_value(v, tobj, lambda e, p: errs.append((e.message, p)))
    except Exception as e:  # noqa: BLE001
        bad("validate-value-raises", f"{type(e).__name__}: {e}")
        return vs
    if (c is Undefined) != bool(errs):
        bad("value-agreement", f"coerce -> {c!r} but validation errors {errs[:2]}")
        return vs
    accepted = c is not Undefined
    if accepted and not R4.conforms(env.m, t, c):
        bad("value-nonconforming", f"result {c!r} does not conform to the type")
    if jsonlike(v):
        ref = R4.coerce_value(env.m, t, v)
        if (ref is R4.INVALID) == accepted:
            bad("value-vs-spec", f"implementation {'accepts' if accepted else 'rejects'} "
                f"({c!r}), specification {'rejects' if accepted else 'gives ' + repr(ref)}")
        elif accepted and not eq(ref, c):
            bad("value-vs-spec", f"result {c!r}, specification gives {ref!r}")
    custom = env.m.kind(g2.named(t)) == "scalar" and g2.named(t) not in g2.BUILTIN
    if accepted and (jsonlike(v) or not custom):
        try:
            lit = value_to_literal(v, tobj)
        except Exception as e:  # noqa: BLE001
            bad("value-to-literal-raises", f"{type(e).__name__}: {e}")
            return vs
        if lit is None:
            bad("value-to-literal-none", "accepted value has no literal")
        else:
            try:
                c2 = g2.unpy(coerce_input_literal(lit, tobj))
                if c2 is Undefined or not eq(c2, c):
                    from graphql import print_ast

                    bad("value-literal-roundtrip", f"literal {print_ast(lit)} coerces to {c2!r}, "
                        f"value coerces to {c!r}")
            except Exception as e:  # noqa: BLE001
                bad("value-literal-roundtrip", f"coercing the literal raised {e!r}")
    return vs


def eval_const_literal(env, t, lit, case):
    from graphql import validate
    from graphql.language import ast as A
    from graphql.pyutils import Undefined
    from graphql.utilities import coerce_input_literal
    from graphql.utilities.validate_input_value import validate_input_literal
    from graphql.validation import ValuesOfCorrectTypeRule

    vs = []
    text = g1.layout(g1.to_tokens(lit), [], minimal=True)

    def bad(rel, detail):
        vs.append(Violation(("C15", rel), f"type {g2.type_str(t)} literal {text}: {detail}", case,
                            {"relation": rel}))

    tobj = env.T(t)
    node = g1.build(lit)
    try:
        c = g2.unpy(coerce_input_literal(node, tobj))
    except Exception as e:  # noqa: BLE001
        bad("coerce-literal-raises", f"{type(e).__name__}: {e}")
        return vs
    errs = []
    try:
        validate_input_literal(node, tobj, lambda e, p: errs.append((e.message, p)))
    except Exception as e:  # noqa: BLE001
        bad("validate-literal-raises", f"{type(e).__name__}: {e}")
        return vs
    accepted = c is not Undefined
    if accepted == bool(errs):
        bad("literal-agreement", f"coerce -> {c!r} but validation errors {errs[:2]}")
        return vs
    if accepted and not R4.conforms(env.m, t, c):
        bad("literal-nonconforming", f"result {c!r} does not conform to the type")
    ref = R4.coerce_literal(env.m, t, lit)
    if (ref is R4.INVALID) == accepted:
        bad("literal-vs-spec", f"implementation {'accepts' if accepted else 'rejects'} ({c!r}), "
            f"specification {'rejects' if accepted else 'gives ' + repr(ref)}")
    elif accepted and not eq(ref, c):
        bad("literal-vs-spec", f"result {c!r}, specification gives {ref!r}")
    # (4) the validation rule on { f(arg: literal) }
    schema2, _f = env.arg_schema(t)
    doc = A.DocumentNode(definitions=(A.OperationDefinitionNode(
        operation=A.OperationType.QUERY, selection_set=A.SelectionSetNode(selections=(
            A.FieldNode(name=A.NameNode(value="f"), arguments=(
                A.ArgumentNode(name=A.NameNode(value="arg"), value=node),)),))),))
    try:
        rule_errs = validate(schema2, doc, [ValuesOfCorrectTypeRule])
    except Exception as e:  # noqa: BLE001
        bad("rule-raises", f"{type(e).__name__}: {e}")
        return vs
    if bool(rule_errs) == accepted:
        bad("rule-agreement", f"ValuesOfCorrectTypeRule reports {[e.message for e in rule_errs[:2]]} "
            f"but coercion gives {c!r}")
    return vs


def eval_variables(env, vardefs, inputs, case):
    """(5) and the variable-bearing literal path (1) through get_argument_values."""
    from graphql import GraphQLError, parse
    from graphql.execution.values import get_argument_values, get_variable_values
    from graphql.language import ast as A

    vs = []

    def bad(rel, detail):
        vs.append(Violation(("C15", rel), detail, case, {"relation": rel}))

    defs = []
    for name, t, default in vardefs:
        d = f"${name}: {g2.type_str(t)}"
        if default is not None:
            d += " = " + g1.layout(g1.to_tokens(default), [], minimal=True)
        defs.append(d)
    text = "query(" + " ".join(defs) + "){__typename}" if defs else "{__typename}"
    op = parse(text).definitions[0]
    nodes = op.variable_definitions or ()
    try:
        r = get_variable_values(env.schema, nodes, dict(inputs))
    except Exception as e:  # noqa: BLE001
        bad("get-variable-values-raises", f"{type(e).__name__}: {e}; {text} inputs={inputs!r}")
        return vs, None
    if isinstance(r, list):
        if not r:
            bad("variables-empty-error-list", f"{text} inputs={inputs!r}")
        return vs, None
    from graphql.pyutils import Undefined

    for name, t, default in vardefs:
        provided = name in inputs and inputs[name] is not Undefined
        if (provided or default is not None) and name not in r.coerced:
            bad("variable-missing", f"${name} provided={provided} defaulted={default is not None} has "
                f"no coerced value; {text} inputs={inputs!r}")
        elif name in r.coerced and not R4.conforms(env.m, t, g2.unpy(r.coerced[name])):
            bad("variable-nonconforming", f"${name}: {r.coerced[name]!r} does not conform to "
                f"{g2.type_str(t)}; {text} inputs={inputs!r}")
    return vs, r


def eval_argument(env, t, lit, variable_values, case):
    from graphql import GraphQLError
    from graphql.execution.values import get_argument_values
    from graphql.language import ast as A

    vs = []
    text = g1.layout(g1.to_tokens(lit), [], minimal=True)
    _schema2, fdef = env.arg_schema(t)
    fnode = A.FieldNode(name=A.NameNode(value="f"), arguments=(
        A.ArgumentNode(name=A.NameNode(value="arg"), value=g1.build(lit)),))
    try:
        out = get_argument_values(fdef, fnode, variable_values)
    except GraphQLError as e:
        if e.message == "Invalid argument":
            vs.append(Violation(("C15", "invalid-argument-fallback"),
                                f"type {g2.type_str(t)} literal {text}: coercion failed but validation "
                                f"reported nothing", case, {"relation": "invalid-argument-fallback"}))
        return vs
    except Exception as e:  # noqa: BLE001
        vs.append(Violation(("C15", "get-argument-values-raises"),
                            f"type {g2.type_str(t)} literal {text}: {type(e).__name__}: {e}", case,
                            {"relation": "get-argument-values-raises"}))
        return vs
    if "arg" in out and not R4.conforms(env.m, t, g2.unpy(out["arg"])):
        vs.append(Violation(("C15", "argument-nonconforming"),
                            f"type {g2.type_str(t)} literal {text}: {out['arg']!r} does not conform "
                            f"(variables {getattr(variable_values, 'coerced', None)!r})", case,
                            {"relation": "argument-nonconforming"}))
    return vs


# ------------------------------------------------------------------------------------------


def g_scenario(c):
    m = g2.g_model(c)
    items = []
    pool_n = len(g5.adversarial_pool())
    for _ in range(4):
        t = g5.g_input_type(c, m)
        vals = []
        for _ in range(4):
            v = g2.g_value(c, m, t, 3)
            vals.append(["json", v])
            if c.chance(160):
                vals.append(["json", g5.perturb_value(c, m, t, v)])
        for _ in range(3):
            vals.append(["pool", c.pick(pool_n)])
        # the same conforming value inside another container class (Mapping / Sequence look-alikes)
        wv = g2.g_value(c, m, t, 3)
        if isinstance(wv, (dict, list)):
            vals.append(["wrap", [c.pick(5), wv]])
        lits = []
        for _ in range(3):
            v = g2.g_value(c, m, t, 3)
            lit = g5.value_to_lit(m, t, v)
            lits.append(["const", lit])
            if c.chance(170):
                lits.append(["const", g5.perturb_literal(c, lit)])
            if c.chance(150):
                vars_out = {}
                vl = g5.insert_variables(c, m, t, lit, vars_out, 50)
                binds = {}
                for name, vt in vars_out.items():
                    k = c.pick(4)
                    if k == 0:
                        continue  # unbound
                    binds[name] = None if k == 1 else g2.g_value(c, m, vt, 2)
                lits.append(["vars", vl, {n: vt for n, vt in vars_out.items()}, binds])
        if c.chance(90):
            lits.append(["const", g1.g_value(c, True, 2)])
        items.append({"type": t, "values": vals, "literals": lits})
    # one variable definition list
    vardefs, inputs = [], {}
    for i in range(c.count(1, 3)):
        t = g5.g_input_type(c, m)
        default = None
        if c.chance(100):
            dv = g2.g_value(c, m, t, 2)
            default = g5.value_to_lit(m, t, dv if not c.chance(40) else g5.perturb_value(c, m, t, dv))
            if not jsonlike_lit(default):
                default = None
        k = c.pick(5)
        if k >= 2:
            v = g2.g_value(c, m, t, 2)
            inputs[f"x{i}"] = v if k >= 3 else g5.perturb_value(c, m, t, v)
        elif k == 1:
            inputs[f"x{i}"] = None
        vardefs.append([f"x{i}", t, default])
    return {"model": dict(m), "items": items, "vardefs": vardefs, "inputs": inputs, "out_names": c.chance(100)}


def rewrap(k, v):
    """A conforming dict/list value inside a look-alike container class."""
    import collections
    import types

    if isinstance(v, dict):
        return [types.MappingProxyType(v), collections.ChainMap(v), collections.UserDict(v),
                collections.OrderedDict(v), collections.defaultdict(int, v)][k % 5]
    return [tuple(v), collections.deque(v), collections.UserList(v), tuple(v), list(v)][k % 5]


def jsonlike_lit(lit):
    return isinstance(lit, dict) and "k" in lit


def eval_scenario(sc):
    env = Env(sc["model"], sc.get("out_names", False))
    pool = g5.adversarial_pool()
    vs = []
    n = 0
    nt = []
    for it in sc["items"]:
        t = it["type"]
        for kind, v in it["values"]:
            val = pool[v] if kind == "pool" else (rewrap(*v) if kind == "wrap" else v)
            case = {"model": sc["model"], "items": [{"type": t, "values": [[kind, v]], "literals": []}],
                    "vardefs": [], "inputs": {}, "out_names": sc.get("out_names", False)}
            vs += eval_value(env, t, val, case)
            n += 1
            if depth_of(val) >= 2 or boundary(val):
                nt.append((g2.type_str(t), repr(val)))
        for entry in it["literals"]:
            case = {"model": sc["model"], "items": [{"type": t, "values": [], "literals": [entry]}],
                    "vardefs": [], "inputs": {}, "out_names": sc.get("out_names", False)}
            if entry[0] == "const":
                if R4.has_var(entry[1]):
                    continue
                vs += eval_const_literal(env, t, entry[1], case)
                n += 1
                if depth_of(R4.untyped(entry[1])) >= 2:
                    nt.append((g2.type_str(t), str(entry[1])))
            else:
                _k, lit, vtypes, binds = entry
                vdefs = [[name, vt, None] for name, vt in vtypes.items()]
                v1, vv = eval_variables(env, vdefs, binds, case)
                vs += v1
                if vv is not None:
                    vs += eval_argument(env, t, lit, vv, case)
                    n += 1
                    nt.append((g2.type_str(t), str(lit)))
    if sc["vardefs"]:
        case = {"model": sc["model"], "items": [], "vardefs": sc["vardefs"], "inputs": sc["inputs"],
                "out_names": sc.get("out_names", False)}
        v1, _vv = eval_variables(env, [tuple(x) for x in sc["vardefs"]], sc["inputs"], case)
        vs += v1
        n += 1
    return vs, n, nt


def _scenarios(nex):
    def fn(ctx, shard, nshards):
        def body(sc):
            vs, n, nt = eval_scenario(sc)
            ctx.count(n)
            for x in nt:
                ctx.nontriv(list(x))
            if nt:
                ctx.sample("scenario-item", {"type": nt[0][0], "value_or_literal": nt[0][1]})
            ctx.check(vs)

        given_run(ctx, from_bytes(g_scenario, 2048), body, max_examples=nex)

    return fn


def subchecks(tier):
    if tier == "quick":
        return [Sub("scenarios", _scenarios(900), shards=14)]
    return [Sub("scenarios", _scenarios(15000), shards=16)]


def replay(case):
    return eval_scenario(case)[0]
