#!/venv/bin/python
"""atheris (libFuzzer) target for C01: coverage-guided search over source texts.

The oracle is inside the target (checks.c01.eval_parse / eval_request): a violation raises, libFuzzer
saves the input as a crash artifact, and the C01 sub-check 'atheris' turns the artifact into a normal
violation + replay file.  Counters are flushed to <stats file> because atexit handlers do not run.

usage: c01_target.py <stats file> <mode: parse|request> [libFuzzer flags] <corpus dir> ...
"""
import json
import os
import sys

import atheris

HERE = os.path.dirname(os.path.dirname(os.path.abspath(__file__)))
sys.path.insert(0, HERE)
stats_path, mode = sys.argv[1], sys.argv[2]
argv = [sys.argv[0]] + sys.argv[3:]

with atheris.instrument_imports(include=["graphql"]):
    import graphql  # noqa: F401
    from graphql import language  # noqa: F401
    from graphql import validation, execution, utilities, type as _t  # noqa: F401

from checks import c01  # noqa: E402

STATS = {"execs": 0, "nontrivial": 0, "violations": 0}


class OracleViolation(Exception):
    pass


def flush():
    with open(stats_path + ".tmp", "w") as f:
        json.dump(STATS, f)
    os.replace(stats_path + ".tmp", stats_path)


def decode(data: bytes):
    if not data:
        return 0, ""
    return data[0] & 31, data[1:].decode("utf-8", "replace")


def test_one_input(data: bytes):
    opts, text = decode(data)
    STATS["execs"] += 1
    if mode == "parse":
        vs, nt = c01.eval_parse(text, opts)
    else:
        vs, nt = c01.eval_request(opts % len(c01.schemas()), text, {}, None, False)[:2]
    if nt:
        STATS["nontrivial"] += 1
    if STATS["execs"] % 5000 == 0:
        flush()
    if vs:
        STATS["violations"] += 1
        flush()
        raise OracleViolation(f"{vs[0].signature}: {vs[0].detail[:300]}")


atheris.Setup(argv, test_one_input)
flush()
atheris.Fuzz()
